import TexcraftModel.Lemmas.C12
import TexcraftModel.Lemmas.C12Set

/-!
C12 — typesetting a paragraph conserves its content and honours the geometry.
Only the property statements and their non-vacuity examples; helper lemmas are in
`Lemmas/C12.lean`. All theorems are about the transcriptions in `Model/C12.lean`
(`postLineBreak`, `finishPar`, `sfAdjust`, `interWordGlue`), for every list, every break
sequence and every parameter setting; the model is tied to the Rust code by
`harness/src/bin/c12.rs`.
-/
namespace C12

/-! ## Conservation -/

/-- **Nothing is lost, duplicated or reordered.** For every list `l`, every valid sequence of
break positions `bs` and every parameter setting: reading the line boxes in order — taking away
the skips, joining the two halves of every discretionary break, and putting back the item at
which each line was broken together with exactly the items TeX drops after it (`droppedOf`,
defined from `l` and `bs` alone) — gives back `l`. -/
theorem conservation (p : Params) (l : List Item) (bs : List Nat) (lines : List Line)
    (hv : ValidBreaks l bs) (h : postLineBreak p l bs = .ok lines) :
    reassemble p (lines.map Line.flat) (droppedOf l bs) = some l := by
  have := go_conserve p l bs.length bs 0 0 none none 0 lines hv rfl h
  simpa [reassemble] using this

/-- **No panic inside the domain**: with a valid break sequence, at least one line width, no
node that `HBox::pack` answers with `todo!()` and penalties whose sum fits `i32`,
`post_line_break` returns lines (none of its slice, index, `unreachable!`, `expect` or overflow
panics can happen). -/
theorem no_panic_in_domain (p : Params) (l : List Item) (bs : List Nat)
    (hv : ValidBreaks l bs) (hw : p.widths ≠ []) (hf : penFits p)
    (hl : ∀ it ∈ l, it.packTodo = false) :
    ∃ lines, postLineBreak p l bs = .ok lines := by
  refine go_total p l bs.length hw hf hl bs 0 0 none 0 hv ?_
  intro b _; exact Nat.zero_le b

/-! ## Geometry -/

/-- **Shape of every line.** One box per break position; line `i` is `\leftskip` (iff it is
non-zero), the post-break material of the previous discretionary, a slice of the list, what
is visible of the item at the break (§881/§882), `\rightskip` (always); its width is the
`i`-th line width and its indent the `i`-th indent (the last one repeating). -/
theorem line_shape (p : Params) (l : List Item) (bs : List Nat) (lines : List Line)
    (h : postLineBreak p l bs = .ok lines) :
    lines.length = bs.length ∧
    ∀ (i : Nat) (ln : Line) (b : Nat), lines[i]? = some ln → bs[i]? = some b →
      ln.flat = leftPart p ++ (ln.post ++ (ln.body ++ (ln.brk ++ [.glue 0 p.rightSkip]))) ∧
      ln.left = leftPart p ∧
      ln.brk = (match l[b]? with | some it => visible it | none => []) ∧
      lineWidth p.widths i = .ok ln.width ∧
      ln.indent = lineIndent p.indents i := by
  refine ⟨go_length p l _ bs 0 0 none lines h, ?_⟩
  intro i ln b hi hb
  obtain ⟨h1, h2, h3, h4, _, h6⟩ := go_shape p l _ bs 0 0 none lines h i ln b hi hb
  simp only [Nat.zero_add] at h3 h4
  refine ⟨?_, h1, h6, h3, h4⟩
  simp [Line.flat, h1, h2]

/-- `\leftskip` is inserted exactly when it is not zero (TeX.2021.887). -/
theorem left_skip_rule (p : Params) :
    leftPart p = if p.leftSkip.w = 0 ∧ p.leftSkip.st = 0 ∧ p.leftSkip.sh = 0 then []
                 else [.glue 0 p.leftSkip] := by
  unfold leftPart Glue.isZero
  by_cases h1 : p.leftSkip.w = 0 <;> by_cases h2 : p.leftSkip.st = 0 <;>
    by_cases h3 : p.leftSkip.sh = 0 <;> simp [h1, h2, h3]

/-- The `i`-th width is used while there is one, then the last one repeats (TeX.2021.889). -/
theorem width_rule (ws : List Int) (i : Nat) (w : Int) (h : lineWidth ws i = .ok w) :
    (i < ws.length → ws[i]? = some w) ∧ (ws.length ≤ i → ws.getLast? = some w) := by
  unfold lineWidth at h
  constructor
  · intro hi
    rw [List.getElem?_eq_getElem hi] at h ⊢
    simp at h; rw [h]
  · intro hi
    rw [List.getElem?_eq_none hi] at h
    simp only at h
    split at h <;> simp_all

/-- Same for the indents; no indents at all means no indent. -/
theorem indent_rule (xs : List Int) (i : Nat) :
    (i < xs.length → xs[i]? = some (lineIndent xs i)) ∧
    (xs.length ≤ i → xs ≠ [] → xs.getLast? = some (lineIndent xs i)) ∧
    (xs = [] → lineIndent xs i = 0) := by
  unfold lineIndent
  refine ⟨?_, ?_, ?_⟩
  · intro hi; rw [List.getElem?_eq_getElem hi]
  · intro hi hne
    rw [List.getElem?_eq_none hi]
    simp only
    cases h : xs.getLast? with
    | some x => rfl
    | none => exact absurd (List.getLast?_eq_none_iff.mp h) hne
  · intro h; subst h; simp

/-- **The last line** (valid breaks): nothing is left of a break item (there is none) and its
list part is a suffix of the list — so whatever ends the list ends the last line. -/
theorem last_line (p : Params) (l : List Item) (bs : List Nat) (lines : List Line)
    (hv : ValidBreaks l bs) (h : postLineBreak p l bs = .ok lines) :
    ∃ ln, lines.getLast? = some ln ∧ ln.brk = [] ∧ ∃ k, ln.body = l.drop k :=
  go_last p l _ bs 0 0 none 0 lines hv h

/-- **Paragraph end** (TeX.2021.816): `break_line` removes one trailing glue item, if there is
one, and appends `\penalty10000` and `\parfillskip`. -/
theorem finish_par_shape (pf : Glue) (l : List Item) :
    ∃ l', finishPar pf l = l' ++ [.penalty 10000, .glue 0 pf] ∧
      ((∃ k g, l = l' ++ [.glue k g]) ∨
       (l' = l ∧ ∀ k g, l.getLast? ≠ some (.glue k g))) := by
  unfold finishPar
  cases h : l.getLast? with
  | none => exact ⟨l, rfl, Or.inr ⟨rfl, by simp⟩⟩
  | some it =>
    cases it with
    | glue k g =>
      refine ⟨l.dropLast, rfl, Or.inl ⟨k, g, ?_⟩⟩
      have hne : l ≠ [] := by intro e; rw [e] at h; simp at h
      have := List.dropLast_concat_getLast hne
      rw [List.getLast?_eq_some_getLast hne] at h
      rw [← Option.some.inj h]; exact this.symm
    | box _ => exact ⟨l, rfl, Or.inr ⟨rfl, by simp⟩⟩
    | inert _ => exact ⟨l, rfl, Or.inr ⟨rfl, by simp⟩⟩
    | kern _ _ => exact ⟨l, rfl, Or.inr ⟨rfl, by simp⟩⟩
    | penalty _ => exact ⟨l, rfl, Or.inr ⟨rfl, by simp⟩⟩
    | disc _ _ _ => exact ⟨l, rfl, Or.inr ⟨rfl, by simp⟩⟩
    | math _ => exact ⟨l, rfl, Or.inr ⟨rfl, by simp⟩⟩

/-- The last line of a broken paragraph ends with `\parfillskip` (then `\rightskip`), unless
everything up to the end of the paragraph was pruned after the previous break. -/
theorem last_line_parfill (p : Params) (pf : Glue) (l0 : List Item) (bs : List Nat) (lines : List Line)
    (hv : ValidBreaks (finishPar pf l0) bs) (h : postLineBreak p (finishPar pf l0) bs = .ok lines) :
    ∃ ln, lines.getLast? = some ln ∧ ln.brk = [] ∧
      (ln.body = [] ∨ ∃ pre, ln.body = pre ++ [.glue 0 pf]) := by
  obtain ⟨ln, h1, h2, k, h3⟩ := last_line p _ bs lines hv h
  refine ⟨ln, h1, h2, ?_⟩
  obtain ⟨l', e, _⟩ := finish_par_shape pf l0
  rw [h3, e]
  by_cases hk : k ≤ l'.length + 1
  · right
    refine ⟨(l' ++ [Item.penalty 10000]).drop k, ?_⟩
    have : l' ++ [Item.penalty 10000, Item.glue 0 pf] = (l' ++ [Item.penalty 10000]) ++ [Item.glue 0 pf] := by simp
    rw [this, List.drop_append_of_le_length (by simpa using hk)]
  · left
    apply List.drop_of_length_le
    simp; omega

/-! ## Inter-line penalties (TeX.2021.890) -/

/-- **Penalty rule.** After every line but the last: `\interlinepenalty`, plus `\clubpenalty`
after the first line, plus `\widowpenalty` after the last but one, plus `\brokenpenalty` if the
line was broken at a discretionary; a penalty node is pushed iff the sum is not zero. -/
theorem penalty_rule (p : Params) (l : List Item) (bs : List Nat) (lines : List Line)
    (h : postLineBreak p l bs = .ok lines) :
    ∀ (i : Nat) (ln : Line) (b : Nat), lines[i]? = some ln → bs[i]? = some b →
      ln.pen =
        if i + 1 = bs.length then none
        else if penaltySpec p bs.length i (isDiscAt l b) = 0 then none
        else some (penaltySpec p bs.length i (isDiscAt l b)) := by
  intro i ln b hi hb
  obtain ⟨_, _, _, _, h5, _⟩ := go_shape p l _ bs 0 0 none lines h i ln b hi hb
  simp only [Nat.zero_add] at h5
  exact linePenalty_spec h5

/-! ## No line begins with discardable material (TeX.2021.879) -/

/-- **Full strength (after the repair c84c5ea).** Every line after the first either starts with
the post-break material of the discretionary at which the previous line was broken, or has no
material from the list at all (everything up to the next break was pruned), or its first item
from the list is not discardable (not glue, penalty, math or an explicit kern). For every list,
every break sequence (valid or not) and every parameter setting. -/
theorem no_leading_discardable (p : Params) (l : List Item) (bs : List Nat)
    (first : Line) (others : List Line) (h : postLineBreak p l bs = .ok (first :: others)) :
    ∀ ln ∈ others, startsClean ln.post ln.body = true :=
  clean_top p l bs first others h

/-- What `startsClean` says, spelled out. -/
theorem startsClean_iff (post body : List Item) :
    startsClean post body = true ↔
      post ≠ [] ∨ body = [] ∨ ∃ it t, body = it :: t ∧ it.nonDiscardable = true := by
  unfold startsClean
  cases post <;> cases body <;> simp

/-! ## The executable verdict used on the real output -/

/-- **The checker is not stricter than the theorems.** `specVerdict` — the executable
conjunction of conservation, line count, geometry, §890 and "no leading discardable" that the
driver evaluates on the REAL line boxes — accepts the model's own lines for every valid break
sequence. (So an `impl-vs-spec` report on lines that equal the model's is impossible, and a
`model-vs-spec` report is impossible while this theorem holds.) -/
theorem spec_accepts_model (p : Params) (l : List Item) (bs : List Nat) (lines : List Line)
    (hv : ValidBreaks l bs) (h : postLineBreak p l bs = .ok lines) :
    specVerdict p l bs (lines.map fun ln => (ln.flat, ln.width, ln.indent, ln.pen)) = [] :=
  specVerdict_model p l bs lines hv h

/-! ## Space factor and inter-word glue (TeX.2021.1034, §1041–§1044) -/

/-- `SpaceFactor::adjust` is TeX.2021.1034 for every code, every current value and every
character (characters without a code count as 1000). -/
theorem space_factor_spec (codes : List Int) (sf : Int) (c : Nat) :
    sfAdjust codes sf c = sfSpec (match codes[c]? with | some v => v | none => 1000) sf := by
  have core : ∀ new : Int,
      (if 0 < new ∧ new ≤ 1000 then new
       else if 1000 < new then (if sf < 1000 then 1000 else new) else sf) = sfSpec new sf := by
    intro new
    unfold sfSpec
    by_cases h1 : new = 1000
    · subst h1; simp
    · by_cases h2 : new < 1000
      · by_cases h3 : 0 < new
        · have : new ≤ 1000 := by omega
          simp [h1, h2, h3, this]
        · have : ¬ (1000 < new) := by omega
          simp [h1, h2, h3, this]
      · have h4 : 1000 < new := by omega
        have h5 : ¬ (new ≤ 1000) := by omega
        simp [h1, h2, h4, h5]
  exact core _

/-- The space factor is never zero or negative (so `add_space` never divides by zero). -/
theorem space_factor_positive (codes : List Int) (w : List Nat) (sf : Int) (h : 0 < sf) :
    0 < sfWord codes sf w := by
  have core : ∀ (new sf : Int), 0 < sf →
      0 < (if 0 < new ∧ new ≤ 1000 then new
           else if 1000 < new then (if sf < 1000 then 1000 else new) else sf) := by
    intro new sf hsf
    split
    · omega
    · split
      · split <;> omega
      · exact hsf
  unfold sfWord
  induction w generalizing sf with
  | nil => simpa using h
  | cons c t ih =>
    simp only [List.foldl_cons]
    apply ih
    exact core _ sf h

/-- **Inter-word glue** (the code since 2ef677c). Whenever TeX.2021.1041–§1044 define the glue
for a space (space factor in TeX's range `1..32767`, no dimension overflow), `add_space`
produces exactly it — `\spaceskip`, `\xspaceskip`, the font's glue and `extra_space`, in all
branches. -/
theorem inter_word_glue_spec (tp : TextParams) (f : Font) (sf : Int) (g : Glue)
    (h : glueSpec tp f sf = some g) : interWordGlue tp f sf = .ok g := by
  unfold glueSpec at h
  unfold interWordGlue
  by_cases h1 : sf = 1000
  · simp only [h1, if_true] at h ⊢
    cases hz : tp.spaceSkip.isZero <;> simp_all
  · simp only [h1, if_false] at h ⊢
    by_cases h2 : sf ≥ 2000 ∧ (!tp.xspaceSkip.isZero) = true
    · simp only [h2, and_self, if_true] at h ⊢
      rw [Option.some.inj h]
    · simp only [h2, if_false] at h ⊢
      generalize (if (!tp.spaceSkip.isZero) = true then tp.spaceSkip else f.glue) = mp at h ⊢
      split at h
      · simp at h
      · rename_i hb
        simp only [not_or, Int.not_lt, Int.not_le] at hb
        obtain ⟨b1, b2, b3, b4, b5, b6⟩ := hb
        rw [scaleBySf_spec mp f.extra sf b1 b2 b3 b4 b5 b6, ← Option.some.inj h]

/-! ## Interline glue (TeX.2021.679) -/

/-- **Interline glue.** For every vertical list before the paragraph that is empty or whose last
box has a depth above `ignore_depth`, every sequence of line heights and depths (depths above
`ignore_depth`: packed boxes have depth ≥ 0) and every `\lineskiplimit`: as long as TeX would not
fall back to `\lineskip`, the glue the code pushes before each line box is exactly TeX's
`append_to_vlist` with `\baselineskip=12pt` — nothing before the first box of an empty list,
`baselineskip − prev_depth − height` otherwise, `prev_depth` being the depth of the box before. -/
theorem interline_glue_spec (lsl : Int) (v : List VNode) (lines : List (Int × Int × Bool))
    (hv : v = [] ∨ ∃ d0, firstBox v.reverse = some d0 ∧ d0 > ignoreDepth)
    (hd : ∀ x ∈ lines, x.2.1 > ignoreDepth)
    (hg : ∀ g ∈ texInterlines codeBaselineSkip lsl (texPrevDepth v) lines, g ≠ TexGlue.lineskip) :
    interline v lines = (texInterlines codeBaselineSkip lsl (texPrevDepth v) lines).map TexGlue.toOpt :=
  interline_tex codeBaselineSkip lsl rfl lines v hv hd hg

/-- Non-vacuity: two cmr10-sized lines after a box of depth 3pt, `\lineskiplimit=0pt`. -/
example : interline [.box 196608, .other] [(455111, 127431, true), (455111, 0, false)] =
    [some 134713, some 203890] ∧
    (∀ g ∈ texInterlines codeBaselineSkip 0 (texPrevDepth [.box 196608, .other])
        [(455111, 127431, true), (455111, 0, false)], g ≠ TexGlue.lineskip) := by decide

/-- The two boundaries of `interline_glue_spec` are real (both are `TODO`s in the code): after a
vertical list without any box TeX adds no glue (`prev_depth = ignore_depth`), the code adds
`12pt − height`; and a line so tall that `d < \lineskiplimit` gets `\lineskip` in TeX, a negative
`\baselineskip` glue in the code. -/
example : interline [.other] [(455111, 0, false)] = [some 331321] ∧
    texInterlines codeBaselineSkip 0 (texPrevDepth [.other]) [(455111, 0, false)] = [.noGlue] := by decide
example : interline [.box 0] [(900000, 0, false)] = [some (-113568)] ∧
    texInterlines codeBaselineSkip 0 (texPrevDepth [.box 0]) [(900000, 0, false)] = [.lineskip] := by decide

/-- cmr10's inter-word glue parameters (scaled points). -/
def cmr10x : Font := { space := 218453, stretch := 109226, shrink := 72818, extra := 72818 }

/-! ## The text front end (`add_text`, `add_word`) -/

/-- What `split_ascii_whitespace` gives (the words the spelling clause is about): no word is
empty, no word contains a blank, and the words in order are the text without its blanks. -/
theorem words_of_text (t : List Nat) :
    (∀ w ∈ splitWs t, w ≠ []) ∧ (∀ w ∈ splitWs t, ∀ c ∈ w, isWs c = false) ∧
    (splitWs t).flatten = t.filter (fun c => !isWs c) :=
  ⟨splitWs_nonempty t, splitWs_noWs t, splitWs_flatten t⟩

/-- **The list spells the text.** For every text, every setting of codes and skips, and every
lig/kern program whose runs stand for their word (`runSpell (run w) = w`: the law property C05
proves for compiled programs): reading the list `add_text` produces — characters as
themselves, ligatures as their original characters, kerns and discretionaries as nothing,
glue as a blank — gives exactly the words of the text, in order. -/
theorem add_text_spells (run : List Nat → List RunItem) (codes : List Int) (tp : TextParams)
    (f : Font) (text : List Nat) (hrun : ∀ w, runSpell (run w) = w) :
    spell ((addText run codes tp f text).map TItem.chars) = splitWs text := by
  unfold addText spell
  have hne : ∀ w ∈ splitWs text, (!w.isEmpty) = true := by
    intro w hw
    have := splitWs_nonempty text w hw
    cases w <;> simp_all
  cases hl : leadWs text
  · cases hs : splitWs text with
    | nil => simp [addWords, splitAtGlue]
    | cons w ws =>
      rw [addWords_split_false run codes tp f hrun]
      rw [hs] at hne
      exact List.filter_eq_self.mpr hne
  · rw [addWords_split_true run codes tp f hrun]
    rw [List.filter_cons_of_neg (by simp)]
    exact List.filter_eq_self.mpr hne

/-- **One glue item per blank run that is followed by a word** — none for trailing blanks, one
for leading blanks (the code's convention for a text chunk), one between consecutive words
however long the run of blanks. No hypothesis on the lig/kern program. -/
theorem add_text_glue_count (run : List Nat → List RunItem) (codes : List Int) (tp : TextParams)
    (f : Font) (text : List Nat) :
    ((addText run codes tp f text).filter TItem.isGlue).length =
      if leadWs text then (splitWs text).length else (splitWs text).length - 1 :=
  addWords_glue_count run codes tp f (splitWs text) 1000 (leadWs text)

/-- The glue items are, in order, `add_space` at the space factor reached after the words
before (starting from 1000): together with `space_factor_spec` and `inter_word_glue_spec` this
is TeX.2021.1034 and §1041–§1044 for the whole text. -/
theorem add_text_glue_values (run : List Nat → List RunItem) (codes : List Int) (tp : TextParams)
    (f : Font) (text : List Nat) :
    glueItems (addText run codes tp f text) =
      (addTextGlues codes tp f 1000 (leadWs text) (splitWs text)).filterMap id :=
  addWords_glueItems run codes tp f (splitWs text) 1000 (leadWs text)

/-- The executable text verdict the driver evaluates on the REAL list accepts the model. -/
theorem text_verdict_accepts_model (run : List Nat → List RunItem) (codes : List Int)
    (tp : TextParams) (f : Font) (text : List Nat) (hrun : ∀ w, runSpell (run w) = w) :
    textVerdict (addText run codes tp f text) text = (true, true) := by
  unfold textVerdict
  simp [add_text_spells run codes tp f text hrun, add_text_glue_count run codes tp f text]

/-- Explicit hyphens (TeX.2021.1039): in the list of a word, an empty discretionary follows
exactly the hyphen characters and the ligatures whose original characters end with one. -/
theorem add_word_hyphens (run : List Nat → List RunItem) (w : List Nat) :
    addWord run w = (run w).flatMap fun r =>
      match r with
      | .char c => if c = 45 then [TItem.char c, .disc] else [.char c]
      | .kern k => [.kern k]
      | .lig c orig lb rb =>
        if orig.getLast? = some 45 then [.lig c orig lb rb, .disc] else [.lig c orig lb rb] := by
  unfold addWord
  congr 1
  funext r
  cases r <;> simp [addItem] <;> split <;> rfl

/-- Non-vacuity: a run function that satisfies the law (every character as itself). -/
example : (∀ w, runSpell ((fun w => w.map RunItem.char) w) = w) := by
  intro w; induction w with
  | nil => rfl
  | cons c t ih => simp [runSpell, ih]

example : addText (fun w => if w = [102, 105] then [.lig 12 [102, 105] false false] else w.map RunItem.char)
      plainSfCodes {} cmr10x [32, 97, 45, 98, 46, 9, 32, 102, 105, 32] =
    [.glue (.ok { w := 218453, st := 109226, sh := 72818 }), .char 97, .char 45, .disc, .char 98, .char 46,
     .glue (.ok { w := 291271, st := 327678, sh := 24272 }), .lig 12 [102, 105] false false] := by decide

/-! ## `box linebreak --widths` -/

/-- **The width list of the command line.** Writing the widths as `a, b, c` (fields without
commas and without blanks at their ends) and splitting as `Linebreak::run` does
(`split(',')`, `trim`) gives back the fields, in order, one per line width — so by `line_shape`
and `width_rule` line `i` of the paragraph is packed to the `i`-th field (parsed by C06's
`parseFromString`), the last one repeating. -/
theorem widths_option_fields (fs : List (List Nat)) (hne : fs ≠ [])
    (hc : ∀ f ∈ fs, ∀ c ∈ f, c ≠ 44) (ht : ∀ f ∈ fs, trimWs f = f) :
    widthFields (joinComma fs) = fs := by
  rw [widthFields_joinComma fs hne hc]
  induction fs with
  | nil => rfl
  | cons f r ih =>
    simp only [List.map_cons, ht f (by simp)]
    congr 1
    cases r with
    | nil => rfl
    | cons g r' =>
      exact ih (by simp) (fun f' hf' => hc f' (by simp [hf'])) (fun f' hf' => ht f' (by simp [hf']))

example : widthFields (joinComma [[56, 48, 112, 116], [54, 48, 46, 53, 112, 116]]) =
    [[56, 48, 112, 116], [54, 48, 46, 53, 112, 116]] := by decide

/-! ## Every line is set to its width -/

/-- **Set width.** `post_line_break` packs every line with `HBox::pack(…, Exact(line width))`; the
model of that call is property C15's `C15.hpack` (mapping: each node of the line becomes the
`C15.Item` C15's harness decodes it to — char/ligature ↦ `char` with the font's dimensions,
box/rule/glue/kern as themselves, penalty and discretionary ↦ `inert`; the totals the C12 harness
sends to `lineSetVerdict` are `C15.loop`'s accumulators `natW`, `st`, `sh`). For every node list
and every line width the box satisfies `lineSetVerdict`: its glue order is the highest order with
a non-zero total and `nat·den + num·total = width·den` exactly — except in exactly the three
excused shapes coded in `lineSetVerdict` (nothing to stretch, nothing to shrink, only finite
shrink and it is exhausted). -/
theorem lines_set_to_width (l : List C15.Item) (w : Int) :
    lineSetVerdict (C15.loop {} l).natW w (totalsList (C15.loop {} l).st)
      (totalsList (C15.loop {} l).sh) (C15.hpack l (.exact w)).order.toNat
      (C15.hpack l (.exact w)).num (C15.hpack l (.exact w)).den = none :=
  lineSet_setGlue (C15.loop {} l).h (C15.loop {} l).d (C15.loop {} l).natW w (C15.loop {} l).st
    (C15.loop {} l).sh (C15.hpack l (.exact w)) rfl

/-- The C12-r5-2 shape: a 100pt box with `minus 1fil` (infinite shrink, numerically smaller than
the 10pt overflow) in a 90pt line is set at order fil with ratio −10 and meets the verdict; the
box the seeded code produced (ratio −1 at order fil) does not. -/
example :
    let l : List C15.Item := [.box 0 6553600 0 0, .glue ⟨0, 0, .normal, 65536, .fil⟩]
    (C15.hpack l (.exact 5898240)).order = .fil ∧ (C15.hpack l (.exact 5898240)).num = -655360 ∧
    (C15.hpack l (.exact 5898240)).den = 65536 ∧
    lineSetVerdict 6553600 5898240 [0, 0, 0, 0] [0, 65536, 0, 0] 1 (-655360) 65536 = none ∧
    lineSetVerdict 6553600 5898240 [0, 0, 0, 0] [0, 65536, 0, 0] 1 (-65536) 65536 =
      some "shrink-set-width" := by decide

/-! ## Non-vacuity and the behaviour before the repairs -/

section Examples

def gl : Glue := { w := 5, st := 3, sh := 2 }
def pfill : Glue := { st := 65536, so := 1 }

/-- `box glue penalty glue box` + paragraph end, broken at the first glue and at the end. -/
def exList : List Item :=
  finishPar pfill [.box 0, .glue 0 gl, .penalty 0, .glue 0 gl, .box 1]

example : exList = [.box 0, .glue 0 gl, .penalty 0, .glue 0 gl, .box 1, .penalty 10000, .glue 0 pfill] := by
  decide

example : ValidBreaks exList [1, 7] := by decide

/-- The model on the witness of C12-a: the penalty and the second glue are pruned. -/
example : (postLineBreak { widths := [12] } exList [1, 7]).toOption = some
    [ { left := [], post := [], body := [.box 0], brk := [], right := .glue 0 {}, width := 12, indent := 0,
        pen := some 300 },
      { left := [], post := [], body := [.box 1, .penalty 10000, .glue 0 pfill], brk := [],
        right := .glue 0 {}, width := 12, indent := 0, pen := none } ] := by
  decide

example : droppedOf exList [1, 7] = [⟨.glue 0 gl, [.penalty 0, .glue 0 gl]⟩] := by decide

/-- Before c84c5ea the second line was `penalty glue box …`: it starts with discardable material
(`no_leading_discardable` was false for the unrepaired code at this witness). -/
example : startsClean [] [.penalty 0, .glue 0 gl, .box 1, .penalty 10000, .glue 0 pfill] = false := by
  decide

/-- A discretionary break with pre-break, post-break and one replaced item, then a kern break. -/
def exList2 : List Item :=
  [.box 0, .disc [.box 7] [.box 8, .kern 0 1] 1, .box 1, .box 2, .kern 1 3, .glue 0 gl, .glue 0 gl, .box 3,
   .penalty 10000, .glue 0 pfill]

example : ValidBreaks exList2 [1, 4, 10] := by decide
example : (∀ it ∈ exList2, it.packTodo = false) ∧ penFits { widths := [12] } :=
  ⟨by decide, by unfold penFits; decide⟩

example : (postLineBreak { widths := [12, 9], indents := [2], leftSkip := { w := 1 } } exList2 [1, 4, 10]).toOption.map
      (fun ls => ls.map fun ln => (ln.flat, ln.width, ln.indent, ln.pen)) = some
    [ ([.glue 0 { w := 1 }, .box 0, .disc [] [] 0, .box 7, .glue 0 {}], 12, 2, some 250),
      ([.glue 0 { w := 1 }, .box 8, .kern 0 1, .box 2, .kern 1 0, .glue 0 {}], 9, 2, some 150),
      ([.glue 0 { w := 1 }, .box 3, .penalty 10000, .glue 0 pfill, .glue 0 {}], 9, 2, none) ] := by
  decide

/-- cmr10's inter-word glue; `\spaceskip=3pt plus 1pt minus 1pt`, space factor 3000 (after a
period): TeX and the repaired code give `4.11111pt plus 3pt minus 0.33333pt`, the unrepaired
code leaves `\spaceskip` unscaled (C12-b). -/
def cmr10 : Font := { space := 218453, stretch := 109226, shrink := 72818, extra := 72818 }
def tp3 : TextParams := { spaceSkip := { w := 196608, st := 65536, sh := 65536 } }

example : glueSpec tp3 cmr10 3000 = some { w := 269426, st := 196608, sh := 21845 } := by decide
example : interWordGlue tp3 cmr10 3000 = .ok { w := 269426, st := 196608, sh := 21845 } := by decide
example : interWordGlueOld tp3 cmr10 3000 = .ok { w := 196608, st := 65536, sh := 65536 } := by decide
example : glueSpec {} cmr10 1250 = some { w := 218453, st := 136532, sh := 58254 } := by decide

end Examples

end C12
