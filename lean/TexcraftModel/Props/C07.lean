import TexcraftModel.Lemmas.C07
import TexcraftModel.Lemmas.C07Scan

/-!
# C07 — property theorems

Only the statements that *are* the property (helpers: `Lemmas/C07*.lean`). The model describes
/repo as it is (fixes C07-a, C09-f, C07-g applied); the witnesses further down show which
statements are false for the formulas as they stood before those fixes.

* `cond_selects`, `cond_selects_ok`, `cond_selects_unbalanced`, `expandAll_tree` — a
  well-nested tree of any depth delivers exactly its selected branch
* `cond_selects_raw`, `skipped_raw_contributes_nothing`, `tree_spec_is_instance` — the same with
  *raw* skipped branches; the tree specification is an instance
* `skipped_text_contributes_nothing` — every skipping loop, at every depth, passes over any
  well-nested text without any change of state
* `ifodd_spec`, `ifnum_spec`, `test_spec`, `ifcase_spec`, `ifcase_selects` — the conditions
* `xa_equiv`, `xa_equiv_expand_once`, `xa_equiv_deliver` — simple = optimized `\expandafter`
* `noexpand_once`, `noexpand_once_under_expand_once` — `\noexpand`
-/
namespace C07

/-! ## Conditionals deliver only the selected branch -/

/-- **Main theorem.** For every well-nested conditional tree `t` (any depth, any plain tokens —
unbalanced braces included — in any branch, conditionals identified by tag so `\let` aliases
are covered), in every delivering state (any branch stack `st`, any number of open groups,
any output so far) and followed by any `rest`: expanding the flattened tree is the same as
expanding just the tokens TeX selects. The right-hand side contains no conditional token, so
the branch stack is never touched: it is back at `st` when `rest` is reached. -/
theorem cond_selects (t : Text) (st : List BranchKind) (g : Nat) (o rest : List Tok) :
    run ⟨st, .deliver, g, o⟩ (t.flatten ++ rest) = run ⟨st, .deliver, g, o⟩ (t.selectToks ++ rest) := by
  rw [deliver_text, Text.selectToks, run_plain]

/-- The same with the final state spelled out: if the braces of the *selected* text never close
a group that is not open, the selected tokens are appended to the output, the branch stack is
the initial one and expansion continues with `rest`. -/
theorem cond_selects_ok (t : Text) (st : List BranchKind) (g g' : Nat) (o rest : List Tok)
    (hb : bracesOk g t.select = some g') :
    run ⟨st, .deliver, g, o⟩ (t.flatten ++ rest) = run ⟨st, .deliver, g', o ++ t.selectToks⟩ rest := by
  rw [deliver_text, plainRun_braces, hb]
  rfl

/-- … and if they do, the run ends with the main loop's "no group to end" error (nothing else
can go wrong inside a well-nested tree). -/
theorem cond_selects_unbalanced (t : Text) (st : List BranchKind) (g : Nat) (o rest : List Tok)
    (hb : bracesOk g t.select = none) :
    run ⟨st, .deliver, g, o⟩ (t.flatten ++ rest) = .error .noGroupToEnd := by
  rw [deliver_text, plainRun_braces, hb]
  rfl

/-- A whole input that is a well-nested tree: output = selected tokens, branch stack empty. -/
theorem expandAll_tree (t : Text) (g' : Nat) (hb : bracesOk 0 t.select = some g') :
    expandAll t.flatten = .ok ⟨[], .deliver, g', t.selectToks⟩ := by
  have := cond_selects_ok t [] 0 g' [] [] hb
  simpa [expandAll, run_nil, finish] using this

/-- Skipped text contributes nothing: each of the four skipping loops (`false_case`,
`if_case_primitive_fn` with any counter, `or_primitive_fn`, `else_primitive_fn`), at any
depth `d ≥ 0`, passes over any well-nested text — whatever braces, nested conditionals,
`\else`s and `\or`s it contains — and is afterwards in exactly the state it was in. -/
theorem skipped_text_contributes_nothing (mk : Int → Mode) (h : IsSkip mk) (t : Text)
    (st : List BranchKind) (g : Nat) (o : List Tok) (d : Int) (rest : List Tok) (hd : 0 ≤ d) :
    run ⟨st, mk d, g, o⟩ (t.flatten ++ rest) = run ⟨st, mk d, g, o⟩ rest :=
  skip_text h t st g o d rest hd

/-- **Main theorem, relational form with raw skipped branches.** `Delivers l p` (Model/C07):
`l` is a well-nested input whose *skipped* branches are arbitrary token lists that are only
required to be if/fi-balanced with no `\else`/`\or` of their own (stray `\else`/`\or` inside
nested conditionals, unbalanced braces, aliases, anything else allowed; after the selected
case of an `\ifcase` only if/fi balance is required), and `p` are the plain tokens of the
selected branches. Then, in every delivering state and before any `rest`, expanding `l` is
the same as expanding just `p`; the branch stack is back at `st` when `rest` is reached. -/
theorem cond_selects_raw {l : List Tok} {p : List Plain} (h : Delivers l p)
    (st : List BranchKind) (g : Nat) (o rest : List Tok) :
    run ⟨st, .deliver, g, o⟩ (l ++ rest) = run ⟨st, .deliver, g, o⟩ (p.map Plain.tok ++ rest) := by
  rw [delivers_run h, run_plain]

/-- The executable tree specification (used by the correspondence) is an instance of the
relational one: every tree's flattening delivers the tree's selection. -/
theorem tree_spec_is_instance (t : Text) : Delivers t.flatten t.select := delivers_flatten t

/-- Raw skipped text contributes nothing: every skipping loop at every depth `d ≥ 0` passes over
any token list that is if/fi-balanced with no `\else`/`\or` at its own level
(`rawDepth 0 l = some 0`) and is afterwards in exactly the same state. -/
theorem skipped_raw_contributes_nothing (mk : Int → Mode) (h : IsSkip mk) (l : List Tok)
    (st : List BranchKind) (g : Nat) (o : List Tok) (d : Int) (rest : List Tok) (hd : 0 ≤ d)
    (hl : rawDepth 0 l = some 0) :
    run ⟨st, mk d, g, o⟩ (l ++ rest) = run ⟨st, mk d, g, o⟩ rest := by
  have := skip_raw h st g o l 0 0 d rest hd hl
  simpa using this

/-! ## Conditions evaluate as in TeX -/

/-- `\ifodd` (after C07-a) is true exactly for the numbers not divisible by two, negative
numbers included. -/
theorem ifodd_spec (n : Int) : ifodd n = true ↔ n % 2 ≠ 0 := ifodd_iff n

/-- The three `\ifnum` relations. -/
theorem ifnum_spec (a b : Int) :
    (ifnum a .lt b = true ↔ a < b) ∧ (ifnum a .eq b = true ↔ a = b) ∧ (ifnum a .gt b = true ↔ a > b) :=
  ⟨ifnum_lt a b, ifnum_eq a b, ifnum_gt a b⟩

/-- Every two-way condition evaluates to TeX's meaning of it. -/
theorem test_spec (c : Test) : evalTest c = true ↔ c.holds := evalTest_holds c

/-- What `\ifcase n` selects, in terms of the list of branches: branch number `n` when
`0 ≤ n < number of branches`, otherwise (negative or out of range) the `\else` branch, or
nothing if there is none. -/
theorem ifcase_spec : ∀ (cs : Cases) (n : Int),
    cs.select n =
      match (if n < 0 then none else cs.branches[n.toNat]?) with
      | some b => b.select
      | none => (match cs.elseBranch with | some e => e.select | none => [])
  | .last b, n => by
    by_cases h0 : n = 0
    · subst h0; simp [Cases.select, Cases.branches]
    · by_cases hn : n < 0
      · simp [Cases.select, Cases.elseBranch, h0, hn]
      · have : n.toNat ≠ 0 := by omega
        simp [Cases.select, Cases.branches, Cases.elseBranch, h0, hn, this]
  | .lastElse b e, n => by
    by_cases h0 : n = 0
    · subst h0; simp [Cases.select, Cases.branches]
    · by_cases hn : n < 0
      · simp [Cases.select, Cases.elseBranch, h0, hn]
      · have : n.toNat ≠ 0 := by omega
        simp [Cases.select, Cases.branches, Cases.elseBranch, h0, hn, this]
  | .more b cs, n => by
    by_cases h0 : n = 0
    · subst h0; simp [Cases.select, Cases.branches]
    · by_cases hn : n < 0
      · rw [show (Cases.more b cs).select n = cs.selectElse by simp [Cases.select, h0, hn],
          selectElse_eq]
        simp only [hn, if_true, Cases.elseBranch]
        cases cs.elseBranch <;> rfl
      · have h1 : ¬ (n - 1 < 0) := by omega
        obtain ⟨k, hk⟩ : ∃ k, n.toNat = k + 1 := ⟨n.toNat - 1, by omega⟩
        have h2 : (n - 1).toNat = k := by omega
        simp [Cases.select, Cases.branches, Cases.elseBranch, h0, hn, ifcase_spec cs (n - 1), h1, hk, h2]

/-- The model's `\ifcase` (counter loop, after C07-f) delivers exactly that selection, for
every integer `n` and every body. -/
theorem ifcase_selects (n : Int) (cs : Cases) (st : List BranchKind) (g : Nat) (o rest : List Tok) :
    run ⟨st, .deliver, g, o⟩ (.ifcase n :: (cs.flatten ++ rest)) =
      run ⟨st, .deliver, g, o⟩ ((cs.select n).map Plain.tok ++ rest) := by
  have := cond_selects (.caseOf n cs .nil) st g o rest
  simpa [Text.flatten, Text.selectToks, Text.select] using this

/-! ## `\expandafter`: optimized = simple -/

/-- On every stream, in every state, for every behaviour `E` of the other expandable
commands and whatever name the optimized `\expandafter` was invoked by: the two
implementations return the same result — same error, or same state and same remaining
stream. -/
theorem xa_equiv {σ : Type} (E : Expander σ) (name : Nat) (s : σ) (l : List XTok) :
    xaSimple E s l = xaOptimized E name s l := by
  rw [xaOptimized, xaOptLoop_eq, XRes.prepend_nil]

/-- Hence `expand_once` and the whole delivered token sequence do not depend on which one is
installed. -/
theorem xa_equiv_expand_once {σ : Type} (E : Expander σ) (s : σ) (l : List XTok) :
    expandOnce E (fun _ => xaSimple E) s l = expandOnce E (xaOptimized E) s l := by
  have : (fun (_ : Nat) => xaSimple E) = xaOptimized E := by
    funext name s l; exact xa_equiv E name s l
  rw [this]

theorem xa_equiv_deliver {σ : Type} (E : Expander σ) (fuel : Nat) (s : σ) (l : List XTok) :
    deliverAll E (fun _ => xaSimple E) fuel s l = deliverAll E (xaOptimized E) fuel s l := by
  have : (fun (_ : Nat) => xaSimple E) = xaOptimized E := by
    funext name s l; exact xa_equiv E name s l
  rw [this]

/-- `\expandafter` acts on one token: with `t2` not itself `\expandafter`/`\noexpand`, the
result is `t1` followed by the one-step expansion of `t2 …` (or `t2 …` unchanged when `t2` is
not expandable). -/
theorem xa_one_token {σ : Type} (E : Expander σ) (s : σ) (t1 : XTok) (k : Nat) (rest : List XTok) :
    xaSimple E s (t1 :: .cs k :: rest) =
      match E s (.cs k) rest with
      | none => .ok (s, t1 :: .cs k :: rest)
      | some (.ok (s', l)) => .ok (s', t1 :: l)
      | some (.error e) => .error e := by
  simp only [xaSimple]
  cases E s (.cs k) rest with
  | none => rfl
  | some r =>
    cases r with
    | error e => rfl
    | ok p => rfl

/-! ## `\noexpand` suppresses exactly one expansion -/

/-- In `next_expanded`: the token after `\noexpand` is handed over as it is — whatever it is
(a macro, `\expandafter`, another `\noexpand`, …), whatever `E` would have done with it —
and nothing else changes: same state, and the rest of the stream is untouched, so the next
call expands the following token as usual. -/
theorem noexpand_once {σ : Type} (E : Expander σ) (xaFn : Nat → σ → List XTok → XRes σ)
    (fuel : Nat) (s : σ) (t : XTok) (rest : List XTok) :
    nextExpanded E xaFn (fuel + 1) s (.noexp :: t :: rest) = some (.ok (some t, s, rest)) := rfl

/-- In `expand_once` (i.e. under `\expandafter`): `\noexpand` is consumed and the token after
it is put back unexpanded; state and rest unchanged. -/
theorem noexpand_once_under_expand_once {σ : Type} (E : Expander σ)
    (xaFn : Nat → σ → List XTok → XRes σ) (s : σ) (t : XTok) (rest : List XTok) :
    expandOnce E xaFn s (.noexp :: t :: rest) = .ok (s, t :: rest) := rfl

/-- TeX's own rule (reference semantics `texXa`/`texNext`, tex.web §358, §368, §369): when
`\noexpand` is expanded *by `\expandafter`*, the token after it goes back marked, and the
mark makes it be handed over unexpanded the next time it is looked at — exactly one
expansion is suppressed there too. -/
theorem texref_noexpand_once (macros : List Macro) (s : Nat) (t1 t : XTok) (m1 m : Bool)
    (rest : List MTok) (fuel : Nat) (ht : texExpandable macros t = true) :
    texXa macros s ((t1, m1) :: (.noexp, false) :: (t, m) :: rest) = .ok (s, (t1, false) :: (t, true) :: rest)
    ∧ texNext macros (fuel + 1) s ((t, true) :: rest) = some (.ok (some t, s, rest)) := by
  constructor
  · simp [texXa, texExpandable]
  · simp [texNext, ht]

/-- The full-strength `\noexpand` statement would be: the model (= the code) delivers what
TeX's rule delivers, on every stream. It is **false** (finding C07-h, status known): the
code has no mark, so a `\noexpand` that is expanded by `\expandafter` suppresses nothing.
Proved for the code: `noexpand_once` (main-loop / `next_expanded` context, where the two
agree) and `noexpand_once_under_expand_once` (what the code does instead). Agreement of the
model with the reference on streams where no `\noexpand` is expanded by `\expandafter` is
checked by the correspondence only (tag `xa:model=TeX-reference`). -/
def C07_noexpand_full_statement : Prop :=
  ∀ (macros : List Macro) (fuel : Nat) (h : Nat) (l : List XTok),
    deliverAll (corrExpander macros) (xaOptimized (corrExpander macros)) fuel h l
      = texDeliverAll macros fuel h (l.map (·, false))

/-- Witness `\def\mA{b}\expandafter a\noexpand\mA`: the code delivers `a b`, TeX delivers `a`
and then `\mA` unexpanded. -/
example : ¬ C07_noexpand_full_statement := by
  intro h
  have h1 := h [⟨0, [.tok (.ch 1)]⟩] 10 0 [.xa 0, .ch 0, .noexp, .cs 0]
  have h2 : deliverAll (corrExpander [⟨0, [.tok (.ch 1)]⟩]) (xaOptimized (corrExpander [⟨0, [.tok (.ch 1)]⟩]))
      10 0 [.xa 0, .ch 0, .noexp, .cs 0] = some (.ok [.ch 0, .ch 1]) := by rfl
  have h3 : texDeliverAll [⟨0, [.tok (.ch 1)]⟩] 10 0 ([XTok.xa 0, .ch 0, .noexp, .cs 0].map (·, false))
      = some (.ok [.ch 0, .cs 0]) := by rfl
  rw [h2, h3] at h1
  cases h1

/-! ## Non-vacuity and the pre-fix witnesses -/

/-- `\iffalse {\iftrue a\else }\fi \else \ifcase 1 a\or b{\else c\fi }\fi d` (unbalanced
braces in the skipped branch, nested `\else` at depth 1) delivers `b { } d`. -/
example :
    expandAll (Text.flatten
      (.ifElse .ff
        (.plain .bg (.ifElse .tt (.plain (.other 0) .nil) (.plain .eg .nil) .nil))
        (.caseOf 1 (.more (.plain (.other 0) .nil)
                    (.lastElse (.plain (.other 1) (.plain .bg .nil)) (.plain (.other 2) .nil)))
          (.plain .eg .nil))
        (.plain (.other 3) .nil)))
      = .ok ⟨[], .deliver, 0, [.other 1, .bg, .eg, .other 3]⟩ := by rfl

/-- `Delivers` is inhabited by inputs no tree describes: `\iffalse \iftrue \else \else \or { \fi \fi b`
(two `\else`s, an `\or` and an open brace inside the nested conditional of the skipped branch). -/
example : Delivers [.iff .ff, .iff .tt, .els, .els, .orr, .bg, .fi, .fi, .other 1] [.other 1] :=
  Delivers.ifFalseFi (a := [.iff .tt, .els, .els, .orr, .bg, .fi]) (r := [.other 1])
    (by simp [Test.holds]) (by decide) (Delivers.plain (.other 1) Delivers.nil)

/-- hypotheses of `cond_selects_ok` / `cond_selects_unbalanced` are both satisfiable -/
example : bracesOk 0 (Text.select (.ifThen (.odd (-3)) (.plain .bg (.plain .eg .nil)) .nil)) = some 0 := by decide
example : bracesOk 0 (Text.select (.ifThen (.odd (-3)) (.plain .eg .nil) .nil)) = none := by decide

/-- C07-a (fixed): the formula that was in the repository before the fix, `(n % 2) == 1`, violates `ifodd_spec`
at `n = -3` (it answers "even"). -/
example : ¬ (ifoddPreFix (-3) = true ↔ (-3 : Int) % 2 ≠ 0) := by decide
example : ifodd (-3) = true ∧ ifodd (-2147483647) = true ∧ ifodd (-2147483648) = false := by decide

/-- C09-f (fixed): before the fix the case counter was decremented at every `\or` of depth 0; at
`-2^31` that `i32` subtraction overflows (panic) where TeX — and the fixed code — select the
`\else` branch. -/
example : caseCounterPreFix (-2147483648) = none := by decide
example :
    expandAll (Text.flatten (.caseOf (-2147483648)
      (.more (.plain (.other 0) .nil) (.lastElse (.plain (.other 1) .nil) (.plain (.other 2) .nil))) .nil))
      = .ok ⟨[], .deliver, 0, [.other 2]⟩ := by rfl

/-- `\xa\xa\xa a\xa b c` with `c` a macro expanding to `C`: one step of either implementation
gives `\xa a b C`. -/
example :
    xaOptimized (macroExpander [⟨0, [.tok (.ch 2)]⟩]) 0 ()
      [.xa 0, .xa 0, .ch 0, .xa 0, .ch 1, .cs 0] = .ok ((), [.xa 0, .ch 0, .ch 1, .ch 2]) := by rfl

/-! ## Deepening round: operands as tokens, one skipping theorem, equivalent mutants, `\noexpand`

`Model/C07Scan.lean` extends the machine with the number scanner the conditions call on the
expanded stream (`urun false` = the code, `urun true` = the code with TeX's rule TeX.2021.510);
the `num` correspondence stream runs both against the real code on token-level programs. -/

/-- **Operands the user writes, terminated (`_partial` of `C07_operands_full_statement`).**
For every abstract program `l` whose operands are decimal constants (`|n| ≤ 2^31-1`), the
surface machine — scanning signs and digits token by token, ending each number at its space —
on the written-out program does exactly what the abstract machine does on `l`. Holds for the
code and for TeX's rule alike. -/
theorem operands_terminated (tex : Bool) (l : List Tok) (h : ∀ t ∈ l, t.operandsOk) :
    urun tex {} (surfaceAll l) = liftRes (expandAll l) :=
  surface_run tex l {} h

/-- The same with the terminating space dropped wherever the next token is a *stopper*: any
unexpandable non-digit non-space token for the code; additionally `\else`/`\or`/`\fi` under
TeX's rule. -/
theorem operands_loose (tex : Bool) (l : List (Tok × Bool)) (hl : looseOk tex l = true)
    (h : ∀ p ∈ l, p.1.operandsOk) :
    urun tex {} (surfaceL l) = liftRes (expandAll (l.map Prod.fst)) :=
  surfaceL_run tex l {} hl h

/-- `cond_selects` for the tokens the user writes: a well-nested tree with decimal operands,
written out with terminated operands, delivers exactly the selected tokens (branch stack
empty, no condition left under evaluation). -/
theorem cond_selects_surface (tex : Bool) (t : Text) (g' : Nat)
    (ho : ∀ tok ∈ t.flatten, tok.operandsOk) (hb : bracesOk 0 t.select = some g') :
    urun tex {} (surfaceAll t.flatten) = .ok ⟨[], .deliver, g', t.select.map Plain.utok, []⟩ := by
  rw [operands_terminated tex _ ho, expandAll_tree t g' hb]
  simp only [liftRes, St.lift, Text.selectToks, List.map_map]
  congr 2
  apply List.map_congr_left
  intro p _
  cases p <;> rfl

/-- The full statement: on *every* token-level program the code does what TeX's rule does. -/
def C07_operands_full_statement : Prop := ∀ l : List UTok, urun false {} l = urun true {} l

/-- It is false (finding C07-i, status known): `\ifodd 3\fi b`. The code executes the `\fi` while
the `3` is still being scanned — nothing is on the branch stack yet — and reports
`unexpected fi`; TeX ends the number there and delivers `b`. -/
example : ¬ C07_operands_full_statement := by
  intro h
  have h1 := h [.iodd, .dig 3, .fi, .other 1]
  have h2 : urun false {} [.iodd, .dig 3, .fi, .other 1] = .error (.cond .unexpectedFi) := by rfl
  have h3 : urun true {} [.iodd, .dig 3, .fi, .other 1] = .ok ⟨[], .deliver, 0, [.other 1], []⟩ := by rfl
  rw [h2, h3] at h1
  cases h1

/-- With an enclosing conditional the code does not even report an error: in
`\iftrue \ifodd 3\else a\fi b\fi` the inner `\else` pops the *outer* branch and skips to the
inner `\fi`; `b` then ends the number, `2` is even, so `b` is skipped up to the last `\fi`:
nothing is delivered and no error is reported. TeX delivers `ab`. -/
example :
    urun false {} [.itrue, .iodd, .dig 2, .els, .other 0, .fi, .other 1, .fi]
      = .ok ⟨[], .deliver, 0, [], []⟩
    ∧ urun true {} [.itrue, .iodd, .dig 2, .els, .other 0, .fi, .other 1, .fi]
      = .ok ⟨[], .deliver, 0, [.other 0, .other 1], []⟩ := by
  constructor <;> rfl

/-- hypotheses of `operands_loose` are satisfiable with an unterminated operand: `\ifodd 3a\fi`
for the code, `\ifodd 3\fi` only under TeX's rule. -/
example : looseOk false [(.iff (.odd 3), false), (.other 0, true), (.fi, true)] = true := by decide
example : looseOk true [(.iff (.odd 3), false), (.fi, true)] = true
    ∧ looseOk false [(.iff (.odd 3), false), (.fi, true)] = false := by decide

/-- **One theorem for the five skipping loops** (depth invariant): from any point inside
if/fi-balanced text — `k` conditionals deep, with `l` the text up to the matching `\fi`
(`rawDepth k l = some 0`: `l` closes exactly those `k` conditionals and whatever it opens
itself, and has no `\else`/`\or` at the loop's own level) — every loop, started at depth `k`,
ends exactly at that `\fi` and hands control back to the main loop with the branch stack, the
groups and the output untouched. -/
theorem skip_ends_at_matching_fi (mk : Int → Mode) (h : IsSkip mk) (l : List Tok) (k : Nat)
    (hl : rawDepth k l = some 0) (st : List BranchKind) (g : Nat) (o rest : List Tok) :
    run ⟨st, mk k, g, o⟩ (l ++ .fi :: rest) = run ⟨st, .deliver, g, o⟩ rest :=
  skip_ends_at_fi' mk h l k hl st g o rest

/-- … and the two loops that look for `\else` (`false_case`, `if_case_primitive_fn`) stop at the
first `\else` of their own level, pushing the `Else` branch. -/
theorem skip_ends_at_matching_else (mk : Int → Mode)
    (h : mk = Mode.skipFalse ∨ ∃ left, mk = Mode.skipCase left) (l : List Tok)
    (hl : rawDepth 0 l = some 0) (st : List BranchKind) (g : Nat) (o rest : List Tok) :
    run ⟨st, mk 0, g, o⟩ (l ++ .els :: rest) = run ⟨.els :: st, .deliver, g, o⟩ rest := by
  have hs : IsSkip mk := by
    rcases h with rfl | ⟨left, rfl⟩
    · exact isSkip_false
    · exact isSkip_case left
  rw [skip_raw0 hs st g o l _ hl]
  rcases h with rfl | ⟨left, rfl⟩ <;> rfl

/-- Equivalent mutant 31 (`(n as i16 % 2) != 0`): parity survives truncation to 16 bits. -/
theorem ifodd_truncated (n : Int) : ifodd (wrapI16 n) = ifodd n := ifodd_wrapI16' n

/-- Equivalent mutant 28 (chain links compared as whole `Token`s, so never recognised): the
optimized function whose chain test always fails *is* the simple one. -/
theorem xa_never_chains {σ : Type} (E : Expander σ) (s : σ) (l : List XTok) :
    xaNoChain E s l = xaSimple E s l := xaNoChain_eq' E l s

/-- What does hold of the code for `\noexpand` under `\expandafter` (C07-h): it is a no-op there —
`\expandafter t1 \noexpand t …` leaves `t1 t …`, with `t` as expandable as ever; both
implementations agree on that (`xa_equiv`). -/
theorem noexpand_is_noop_under_expandafter {σ : Type} (E : Expander σ) (name : Nat) (s : σ)
    (t1 t : XTok) (rest : List XTok) :
    xaSimple E s (t1 :: .noexp :: t :: rest) = .ok (s, t1 :: t :: rest)
    ∧ xaOptimized E name s (t1 :: .noexp :: t :: rest) = .ok (s, t1 :: t :: rest) := by
  constructor
  · rfl
  · rw [← xa_equiv]; rfl

/-- The fuel of the surface machine (`frames.length + 2` per token and at end of input) always
suffices: no run ends in the `fuel` outcome. -/
theorem scan_fuel_suffices (tex : Bool) (s : USt) (l : List UTok) : urun tex s l ≠ .error .fuel :=
  urun_no_fuel tex l s

/-- Writing a program as loosely as a rule allows (`loosen`, what the driver's `surf` request
does with `tex = false`) stays inside the domain of `operands_loose` and changes nothing:
for the code, any abstract program with decimal operands may drop every terminating space
that is followed by an unexpandable non-digit non-space token. -/
theorem operands_loosened (tex : Bool) (l : List Tok) (h : ∀ t ∈ l, t.operandsOk) :
    urun tex {} (surfaceL (loosen tex l)) = liftRes (expandAll l) := by
  have := operands_loose tex (loosen tex l) (looseOk_loosen tex l)
    (by rw [← loosen_fst tex l] at h; intro p hp; exact h p.1 (List.mem_map_of_mem hp))
  rwa [loosen_fst] at this

/-- **What TeX's rule achieves (the target of a fix for C07-i):** under TeX.2021.510 a
well-nested tree with decimal operands delivers its selected tokens also when every operand
that is directly followed by `\else`/`\or`/`\fi` (or any other stopper) is written without
its terminating space. For the code (`tex = false`) the same statement is refuted above. -/
theorem cond_selects_surface_tex_loose (t : Text) (g' : Nat)
    (ho : ∀ tok ∈ t.flatten, tok.operandsOk) (hb : bracesOk 0 t.select = some g') :
    urun true {} (surfaceL (loosen true t.flatten)) = .ok ⟨[], .deliver, g', t.select.map Plain.utok, []⟩ := by
  rw [operands_loosened true _ ho, expandAll_tree t g' hb]
  simp only [liftRes, St.lift, Text.selectToks, List.map_map]
  congr 2
  apply List.map_congr_left
  intro p _
  cases p <;> rfl

/-- non-vacuity: `\ifodd 3\fi b` *is* `surfaceL (loosen true …)` of the tree `\ifodd 3 \fi b`. -/
example : surfaceL (loosen true (Text.flatten (.ifThen (.odd 3) .nil (.plain (.other 1) .nil))))
    = [.iodd, .dig 3, .fi, .other 1] := by
  have h3 : decDigits 3 = [3] := by rw [decDigits]; simp
  simp [surfaceL, loosen, Text.flatten, surfaceT, surface, numToks, Tok.hasOperand, stopper, Plain.tok, h3]

/-- **The exact boundary of C07-i.** The code and TeX's rule take the same step on every token in
every state, except when `\else`/`\or`/`\fi` arrives while the innermost open conditional is
still scanning its operand (`closesWhileScanning`); hence they agree on every program along
whose run that situation never arises. (The refutation above is the smallest program where
it does.) -/
theorem c07i_exact_boundary (s : USt) (t : UTok) (h : closesWhileScanning s t = false) :
    ustep false s t = ustep true s t := code_eq_tex_step' s t h

theorem c07i_exact_boundary_run (s : USt) (l : List UTok) (h : neverClosesWhileScanning s l = true) :
    urun false s l = urun true s l := code_eq_tex_run' l s h

/-- non-vacuity: `\ifodd 3a\fi` never closes while scanning, `\ifodd 3\fi` does. -/
example : neverClosesWhileScanning {} [.iodd, .dig 3, .other 0, .fi] = true
    ∧ neverClosesWhileScanning {} [.iodd, .dig 3, .fi] = false := by
  constructor <;> rfl

/-- … and the `\ifcase` loop at the first `\or` of its own level: it counts down; the case that
brings the counter to 0 is delivered (as a `Switch` branch), a non-positive counter (negative
`\ifcase` value) is never changed. -/
theorem skip_ends_at_matching_or (left : Int) (l : List Tok) (hl : rawDepth 0 l = some 0)
    (st : List BranchKind) (g : Nat) (o rest : List Tok) :
    run ⟨st, .skipCase left 0, g, o⟩ (l ++ .orr :: rest) =
      if left = 1 then run ⟨.switch :: st, .deliver, g, o⟩ rest
      else if left > 1 then run ⟨st, .skipCase (left - 1) 0, g, o⟩ rest
      else run ⟨st, .skipCase left 0, g, o⟩ rest :=
  skip_case_or' left l hl st g o rest

end C07
