import TexcraftModel.Model.C15
import TexcraftModel.Lemmas.C15

/-!
C15 — packing a horizontal list produces TeX's box dimensions and glue setting.

`hpack` (M) is the transcription of `HBox::pack` *with* `fixes/C15-a.patch`,
`fixes/C15-b.patch` and `fixes/C15-c.patch` applied; `texHpack` (S) is TeX82 §649–§667
over declaratively defined totals. Every theorem is for every list and every target width
(unbounded `Int` dimensions; the `i32` side condition is `inRange`, see the model).
The unpatched code (`hpackOld`) violates these theorems: the `example`s at the end prove
it at concrete witnesses (one per defect).
-/
namespace C15

/-- The box is as wide as asked: the natural width — the sum of the item widths — plus the
additional width, or the exact width. -/
theorem natural_width_sum (l : List Item) :
    (∀ a, (hpack l (.additional a)).width = natWidth l + a) ∧
    (∀ w, (hpack l (.exact w)).width = w) ∧
    natWidth l = sum (l.map Item.natWidth) := by
  refine ⟨fun a => ?_, fun w => ?_, rfl⟩
  · rw [hpack_eq]; exact (setGlue_dims ..).2.2
  · rw [hpack_eq]; exact (setGlue_dims ..).2.2

/-- Height and depth are the maxima (with 0) of what the items ask for, shifted boxes
adjusted: non-negative, an upper bound for every item, and attained (or 0). -/
theorem height_depth_max (l : List Item) (pw : PackWidth) :
    (hpack l pw).height = boxHeight l ∧ (hpack l pw).depth = boxDepth l ∧
    (0 ≤ boxHeight l ∧ (∀ i ∈ l, i.boxHeight ≤ boxHeight l) ∧
      (boxHeight l = 0 ∨ ∃ i ∈ l, i.boxHeight = boxHeight l)) ∧
    (0 ≤ boxDepth l ∧ (∀ i ∈ l, i.boxDepth ≤ boxDepth l) ∧
      (boxDepth l = 0 ∨ ∃ i ∈ l, i.boxDepth = boxDepth l)) := by
  refine ⟨?_, ?_, ⟨boxHeight_nonneg l, ?_, ?_⟩, ⟨boxDepth_nonneg l, ?_, ?_⟩⟩
  · rw [hpack_eq]; exact (setGlue_dims ..).1
  · rw [hpack_eq]; exact (setGlue_dims ..).2.1
  · intro i hi; exact le_max0 _ _ (List.mem_map_of_mem hi)
  · rcases max0_attained (l.map Item.boxHeight) with h | h
    · exact Or.inl h
    · obtain ⟨i, hi, e⟩ := List.mem_map.mp h; exact Or.inr ⟨i, hi, e⟩
  · intro i hi; exact le_max0 _ _ (List.mem_map_of_mem hi)
  · rcases max0_attained (l.map Item.boxDepth) with h | h
    · exact Or.inl h
    · obtain ⟨i, hi, e⟩ := List.mem_map.mp h; exact Or.inr ⟨i, hi, e⟩

/-- The glue order is the highest order of infinity with non-zero total stretch (when the
box must grow) or shrink (when it must contract); normal when nothing is to be done.
FALSE for the unpatched code (C15-a, see the end of the file). -/
theorem order_highest_nonzero (l : List Item) (pw : PackWidth) :
    (0 < excess l pw → IsHighestNonzero (totalStretch l) (hpack l pw).order) ∧
    (excess l pw < 0 → IsHighestNonzero (totalShrink l) (hpack l pw).order) ∧
    (excess l pw = 0 → (hpack l pw).order = .normal) := by
  have hs := texOrder_highest (totalStretch l)
  have hk := texOrder_highest (totalShrink l)
  have allz : ∀ f : Order → Int, (∀ o, f o = 0) → IsHighestNonzero f .normal :=
    fun f h => ⟨Or.inr rfl, fun o' _ => h o'⟩
  rcases hpack_cases l pw with ⟨hx, e⟩ | ⟨hx, _, e⟩ | ⟨hx, hz, e⟩ | ⟨hx, ho, _, _, e⟩ | ⟨hx, hz, e⟩ |
      ⟨hx, _, _, e⟩ <;> rw [e] <;> refine ⟨fun h => ?_, fun h => ?_, fun h => ?_⟩ <;>
    first
    | omega
    | rfl
    | exact hs
    | exact hk
    | exact allz _ hz
    | (rw [← ho]; exact hk)

/-- Whenever TeX would not call the box overfull and there is glue to set (non-zero total
at the chosen order), the stretched or shrunk contents fill the box exactly:
`natural + (num/den)·total[order] = width`, stated without division. -/
theorem ratio_fills (l : List Item) (pw : PackWidth) :
    (0 < excess l pw → totalStretch l (hpack l pw).order ≠ 0 →
      (hpack l pw).den ≠ 0 ∧
      natWidth l * (hpack l pw).den + (hpack l pw).num * totalStretch l (hpack l pw).order
        = (hpack l pw).width * (hpack l pw).den) ∧
    (excess l pw < 0 → totalShrink l (hpack l pw).order ≠ 0 → ¬ Overfull l pw →
      (hpack l pw).den ≠ 0 ∧
      natWidth l * (hpack l pw).den + (hpack l pw).num * totalShrink l (hpack l pw).order
        = (hpack l pw).width * (hpack l pw).den) := by
  have key : ∀ n w t : Int, n * t + (w - n) * t = w * t := by
    intro n w t; rw [← Int.add_mul]; congr 1; omega
  rcases hpack_cases l pw with ⟨hx, e⟩ | ⟨hx, hs, e⟩ | ⟨hx, hz, e⟩ | ⟨hx, ho, hlt, hs, e⟩ | ⟨hx, hz, e⟩ |
      ⟨hx, hno, hs, e⟩ <;> rw [e] <;> refine ⟨fun h hn => ?_, fun h hn hov => ?_⟩ <;>
    simp only [] at * <;>
    first
    | omega
    | exact absurd (hz _) hn
    | exact ⟨hs, key _ _ _⟩
    | exact absurd ⟨hx, ho, hlt⟩ hov

/-- An overfull box (TeX §664: order normal, shrinkability less than the deficit) with some
shrinkability shrinks by exactly its shrinkability: order normal and ratio −1, so the set
width of the contents is `natural − total_shrink`. FALSE for the unpatched code (C15-b). -/
theorem overfull_unit (l : List Item) (pw : PackWidth) (hov : Overfull l pw)
    (hs : totalShrink l .normal ≠ 0) :
    (hpack l pw).order = .normal ∧ (hpack l pw).den ≠ 0 ∧ (hpack l pw).num = -(hpack l pw).den ∧
    natWidth l * (hpack l pw).den + (hpack l pw).num * totalShrink l .normal
      = (natWidth l - totalShrink l .normal) * (hpack l pw).den := by
  obtain ⟨hx', ho', hlt'⟩ := hov
  rcases hpack_cases l pw with ⟨hx, e⟩ | ⟨hx, _, e⟩ | ⟨hx, hz, e⟩ | ⟨hx, ho, hlt, _, e⟩ | ⟨hx, hz, e⟩ |
      ⟨hx, hno, _, e⟩
  · omega
  · omega
  · omega
  · rw [e]
    refine ⟨rfl, by simp [ONE], rfl, ?_⟩
    simp only [ONE]
    omega
  · exact absurd (hz _) hs
  · exact absurd ⟨ho', hlt'⟩ hno

/-- A list without the needed glue is left unset: when nothing is to be done, or every
total of the needed sign is zero, the ratio is 0 and the order normal. -/
theorem no_glue_unset (l : List Item) (pw : PackWidth)
    (h : excess l pw = 0 ∨ (0 < excess l pw ∧ ∀ o, totalStretch l o = 0) ∨
         (excess l pw < 0 ∧ ∀ o, totalShrink l o = 0)) :
    (hpack l pw).num = 0 ∧ (hpack l pw).den ≠ 0 ∧ (hpack l pw).order = .normal := by
  rcases hpack_cases l pw with ⟨hx, e⟩ | ⟨hx, hs, e⟩ | ⟨hx, hz, e⟩ | ⟨hx, ho, hlt, hs, e⟩ | ⟨hx, hz, e⟩ |
      ⟨hx, hno, hs, e⟩ <;> rw [e]
  · exact ⟨rfl, by simp, rfl⟩
  · rcases h with h | ⟨_, h⟩ | ⟨h, _⟩
    · omega
    · exact absurd (h _) hs
    · omega
  · exact ⟨rfl, by simp, rfl⟩
  · rcases h with h | ⟨h, _⟩ | ⟨_, h⟩
    · omega
    · omega
    · exact absurd (h _) hs
  · exact ⟨rfl, by simp [ONE], rfl⟩
  · rcases h with h | ⟨h, _⟩ | ⟨_, h⟩
    · omega
    · omega
    · exact absurd (h _) hs

/-- In particular a list with no glue item at all is never set. -/
theorem no_glue_items_unset (l : List Item) (pw : PackWidth)
    (h : ∀ i ∈ l, ∀ g, i ≠ .glue g) :
    (hpack l pw).num = 0 ∧ (hpack l pw).den ≠ 0 ∧ (hpack l pw).order = .normal := by
  have zs : ∀ o, totalStretch l o = 0 := fun o => sum_map_zero l _ (fun i hi => by
    cases i with
    | glue g => exact absurd rfl (h _ hi g)
    | _ => rfl)
  have zk : ∀ o, totalShrink l o = 0 := fun o => sum_map_zero l _ (fun i hi => by
    cases i with
    | glue g => exact absurd rfl (h _ hi g)
    | _ => rfl)
  apply no_glue_unset
  rcases Int.lt_trichotomy (excess l pw) 0 with hx | hx | hx
  · exact Or.inr (Or.inr ⟨hx, zk⟩)
  · exact Or.inl hx
  · exact Or.inr (Or.inl ⟨hx, zs⟩)

/-- **Refinement**: the packed box is TeX's box — same dimensions, same glue order, and the
signed exact ratio is TeX's `glue_set` with the sign of `glue_sign` (0 when the sign is
normal). FALSE for the unpatched code (C15-a, C15-b, C15-c). -/
theorem hpack_eq_tex (l : List Item) (pw : PackWidth) : (hpack l pw).agrees (texHpack l pw) := by
  have hex : pw.width (natWidth l) - natWidth l = excess l pw := rfl
  rcases hpack_cases l pw with ⟨hx, e⟩ | ⟨hx, hs, e⟩ | ⟨hx, hz, e⟩ | ⟨hx, ho, hlt, hs, e⟩ | ⟨hx, hz, e⟩ |
      ⟨hx, hno, hs, e⟩ <;> rw [e]
  · simp [texHpack, HBox.agrees, hex, hx]
  · have h0 : ¬ excess l pw = 0 := by omega
    simp [texHpack, HBox.agrees, hex, h0, hx, hs]
  · have h0 : ¬ excess l pw = 0 := by omega
    have ho : texOrder (totalStretch l) = .normal := by simp [texOrder, hz]
    simp [texHpack, HBox.agrees, hex, h0, hx, hz, ho]
  · have h0 : ¬ excess l pw = 0 := by omega
    have h1 : ¬ 0 < excess l pw := by omega
    have hl : l ≠ [] := by intro h; subst h; exact hs (totalShrink_nil _)
    simp [texHpack, HBox.agrees, hex, h0, h1, ho, hlt, hs, hl, ONE]
  · have h0 : ¬ excess l pw = 0 := by omega
    have h1 : ¬ 0 < excess l pw := by omega
    have ho : texOrder (totalShrink l) = .normal := by simp [texOrder, hz]
    by_cases hc : excess l pw < 0 ∧ ¬ l = [] <;>
      simp [texHpack, HBox.agrees, hex, h0, h1, hz, ho, hc, ONE]
  · have h0 : ¬ excess l pw = 0 := by omega
    have h1 : ¬ 0 < excess l pw := by omega
    have hno' : ¬ (totalShrink l (texOrder (totalShrink l)) < -excess l pw ∧
        texOrder (totalShrink l) = .normal ∧ l ≠ []) := by
      intro hc; apply hno; refine ⟨hc.2.1, ?_⟩; have := hc.1; rw [hc.2.1] at this; exact this
    simp [texHpack, HBox.agrees, hex, h0, h1, hs, hno']

/-! ## Non-vacuity: concrete instances that meet the hypotheses -/

/-- `glue(0pt plus 5pt) glue(0pt plus 0fil)` packed to 10pt (the C15-a witness). -/
def wA : List Item := [.glue ⟨0, 327680, .normal, 0, .normal⟩, .glue ⟨0, 0, .fil, 0, .normal⟩]
/-- `glue(10pt minus 2pt)` packed to its natural width − 3pt (overfull; the C15-b witness). -/
def wB : List Item := [.glue ⟨655360, 0, .normal, 131072, .normal⟩]
/-- A box of height 8pt, width 4pt, depth 1pt lowered by 3pt (the C15-c witness). -/
def wC : List Item := [.box 524288 262144 65536 196608]
/-- `glue(1pt minus 0fil)` packed to natural − 1pt (C15-a, shrinking: the order is wrong). -/
def wA' : List Item := [.glue ⟨65536, 0, .normal, 0, .fil⟩]
/-- `glue(0pt minus 3pt)  glue(0pt minus 1fil)` packed to −2pt: shrinks at order fil. -/
def wD : List Item := [.glue ⟨0, 0, .normal, 196608, .normal⟩, .glue ⟨0, 0, .normal, 65536, .fil⟩]

-- `ratio_fills`, stretching: TeX sets `wA` with ratio 2.0 at order normal.
example : 0 < excess wA (.exact 655360) ∧ totalStretch wA (hpack wA (.exact 655360)).order ≠ 0 ∧
    hpack wA (.exact 655360) = ⟨0, 655360, 0, .normal, 655360, 327680⟩ := by decide
-- `ratio_fills`, shrinking, not overfull, infinite order.
example : excess wD (.exact (-131072)) < 0 ∧ totalShrink wD (hpack wD (.exact (-131072))).order ≠ 0 ∧
    ¬ Overfull wD (.exact (-131072)) ∧
    hpack wD (.exact (-131072)) = ⟨0, -131072, 0, .fil, -131072, 65536⟩ := by decide
-- `overfull_unit`.
example : Overfull wB (.additional (-196608)) ∧ totalShrink wB .normal ≠ 0 ∧
    hpack wB (.additional (-196608)) = ⟨0, 458752, 0, .normal, -65536, 65536⟩ := by decide
-- `no_glue_unset`, third disjunct; `no_glue_items_unset`.
example : excess wC (.exact 0) < 0 ∧ (∀ i ∈ wC, ∀ g, i ≠ .glue g) ∧
    hpack wC (.exact 0) = ⟨327680, 0, 262144, .normal, 0, 65536⟩ := by
  refine ⟨by decide, ?_, by decide⟩
  intro i hi g; simp [wC] at hi; subst hi; simp
-- `height_depth_max`: a shifted box: height 8pt − 3pt, depth 1pt + 3pt, width 4pt.
example : hpack wC (.additional 0) = ⟨327680, 262144, 262144, .normal, 0, 1⟩ := by decide

/-! ## The unpatched code (`hpackOld`) violates the property — one witness per defect -/

/-- C15-a (stretching): the zero-amount `fil` glue takes the order over, its total is zero,
and the box is left unset; TeX sets it with ratio 2.0 at order normal. `ratio_fills` and
`hpack_eq_tex` are false for `hpackOld`. -/
example : hpackOld wA (.exact 655360) = ⟨0, 655360, 0, .normal, 0, 1⟩ ∧
    texHpack wA (.exact 655360) = ⟨0, 655360, 0, .stretching, .normal, 655360, 327680⟩ ∧
    ¬ (hpackOld wA (.exact 655360)).agrees (texHpack wA (.exact 655360)) := by decide

/-- C15-a (shrinking): the order `fil` is reported although the total shrink at `fil` is
zero: `order_highest_nonzero` is false for `hpackOld`. -/
example : (hpackOld wA' (.additional (-65536))).order = .fil ∧ totalShrink wA' .fil = 0 ∧
    (hpack wA' (.additional (-65536))).order = .normal := by decide

/-- C15-b: the overfull box gets ratio `+1` (stretching by the code's own sign convention)
instead of `−1`: `overfull_unit` and `hpack_eq_tex` are false for `hpackOld`. -/
example : hpackOld wB (.additional (-196608)) = ⟨0, 458752, 0, .normal, 65536, 65536⟩ ∧
    ¬ (hpackOld wB (.additional (-196608))).agrees (texHpack wB (.additional (-196608))) := by decide

/-- C15-c: a nested box contributes its (shifted) height to the width and its width to the
height: `natural_width_sum`, `height_depth_max` and `hpack_eq_tex` are false for `hpackOld`. -/
example : hpackOld wC (.additional 0) = ⟨262144, 327680, 262144, .normal, 0, 1⟩ ∧
    ¬ (hpackOld wC (.additional 0)).agrees (texHpack wC (.additional 0)) := by decide

end C15
