import TexcraftModel.Model.C15
import TexcraftModel.Lemmas.C15
import TexcraftModel.Lemmas.C15Range
import TexcraftModel.Lemmas.C15Fill
import TexcraftModel.Lemmas.C15Font

/-!
C15 — packing a horizontal list produces TeX's box dimensions and glue setting.

`hpack` (M) is the transcription of `HBox::pack` *with* `fixes/C15-a.patch`,
`fixes/C15-b.patch` and `fixes/C15-c.patch` applied; `texHpack` (S) is TeX82 §649–§667
over declaratively defined totals. Every theorem is for every list and every target width
(unbounded `Int` dimensions; the `i32` side condition is `inRange`, see the model).
The unpatched code (`hpackOld`) violates these theorems: the `example`s at the end prove
it at concrete witnesses (one per defect).
-/
namespace C15

/-- The box is as wide as asked: the natural width — the sum of the item widths — plus the
additional width, or the exact width. -/
theorem natural_width_sum (l : List Item) :
    (∀ a, (hpack l (.additional a)).width = natWidth l + a) ∧
    (∀ w, (hpack l (.exact w)).width = w) ∧
    natWidth l = sum (l.map Item.natWidth) := by
  refine ⟨fun a => ?_, fun w => ?_, rfl⟩
  · rw [hpack_eq]; exact (setGlue_dims ..).2.2
  · rw [hpack_eq]; exact (setGlue_dims ..).2.2

/-- Height and depth are the maxima (with 0) of what the items ask for, shifted boxes
adjusted: non-negative, an upper bound for every item, and attained (or 0). -/
theorem height_depth_max (l : List Item) (pw : PackWidth) :
    (hpack l pw).height = boxHeight l ∧ (hpack l pw).depth = boxDepth l ∧
    (0 ≤ boxHeight l ∧ (∀ i ∈ l, i.boxHeight ≤ boxHeight l) ∧
      (boxHeight l = 0 ∨ ∃ i ∈ l, i.boxHeight = boxHeight l)) ∧
    (0 ≤ boxDepth l ∧ (∀ i ∈ l, i.boxDepth ≤ boxDepth l) ∧
      (boxDepth l = 0 ∨ ∃ i ∈ l, i.boxDepth = boxDepth l)) := by
  refine ⟨?_, ?_, ⟨boxHeight_nonneg l, ?_, ?_⟩, ⟨boxDepth_nonneg l, ?_, ?_⟩⟩
  · rw [hpack_eq]; exact (setGlue_dims ..).1
  · rw [hpack_eq]; exact (setGlue_dims ..).2.1
  · intro i hi; exact le_max0 _ _ (List.mem_map_of_mem hi)
  · rcases max0_attained (l.map Item.boxHeight) with h | h
    · exact Or.inl h
    · obtain ⟨i, hi, e⟩ := List.mem_map.mp h; exact Or.inr ⟨i, hi, e⟩
  · intro i hi; exact le_max0 _ _ (List.mem_map_of_mem hi)
  · rcases max0_attained (l.map Item.boxDepth) with h | h
    · exact Or.inl h
    · obtain ⟨i, hi, e⟩ := List.mem_map.mp h; exact Or.inr ⟨i, hi, e⟩

/-- The glue order is the highest order of infinity with non-zero total stretch (when the
box must grow) or shrink (when it must contract); normal when nothing is to be done.
FALSE for the unpatched code (C15-a, see the end of the file). -/
theorem order_highest_nonzero (l : List Item) (pw : PackWidth) :
    (0 < excess l pw → IsHighestNonzero (totalStretch l) (hpack l pw).order) ∧
    (excess l pw < 0 → IsHighestNonzero (totalShrink l) (hpack l pw).order) ∧
    (excess l pw = 0 → (hpack l pw).order = .normal) := by
  have hs := texOrder_highest (totalStretch l)
  have hk := texOrder_highest (totalShrink l)
  have allz : ∀ f : Order → Int, (∀ o, f o = 0) → IsHighestNonzero f .normal :=
    fun f h => ⟨Or.inr rfl, fun o' _ => h o'⟩
  rcases hpack_cases l pw with ⟨hx, e⟩ | ⟨hx, _, e⟩ | ⟨hx, hz, e⟩ | ⟨hx, ho, _, _, e⟩ | ⟨hx, hz, e⟩ |
      ⟨hx, _, _, e⟩ <;> rw [e] <;> refine ⟨fun h => ?_, fun h => ?_, fun h => ?_⟩ <;>
    first
    | omega
    | rfl
    | exact hs
    | exact hk
    | exact allz _ hz
    | (rw [← ho]; exact hk)

/-- Whenever TeX would not call the box overfull and there is glue to set (non-zero total
at the chosen order), the stretched or shrunk contents fill the box exactly:
`natural + (num/den)·total[order] = width`, stated without division. -/
theorem ratio_fills (l : List Item) (pw : PackWidth) :
    (0 < excess l pw → totalStretch l (hpack l pw).order ≠ 0 →
      (hpack l pw).den ≠ 0 ∧
      natWidth l * (hpack l pw).den + (hpack l pw).num * totalStretch l (hpack l pw).order
        = (hpack l pw).width * (hpack l pw).den) ∧
    (excess l pw < 0 → totalShrink l (hpack l pw).order ≠ 0 → ¬ Overfull l pw →
      (hpack l pw).den ≠ 0 ∧
      natWidth l * (hpack l pw).den + (hpack l pw).num * totalShrink l (hpack l pw).order
        = (hpack l pw).width * (hpack l pw).den) := by
  have key : ∀ n w t : Int, n * t + (w - n) * t = w * t := by
    intro n w t; rw [← Int.add_mul]; congr 1; omega
  rcases hpack_cases l pw with ⟨hx, e⟩ | ⟨hx, hs, e⟩ | ⟨hx, hz, e⟩ | ⟨hx, ho, hlt, hs, e⟩ | ⟨hx, hz, e⟩ |
      ⟨hx, hno, hs, e⟩ <;> rw [e] <;> refine ⟨fun h hn => ?_, fun h hn hov => ?_⟩ <;>
    simp only [] at * <;>
    first
    | omega
    | exact absurd (hz _) hn
    | exact ⟨hs, key _ _ _⟩
    | exact absurd ⟨hx, ho, hlt⟩ hov

/-- An overfull box (TeX §664: order normal, shrinkability less than the deficit) with some
shrinkability shrinks by exactly its shrinkability: order normal and ratio −1, so the set
width of the contents is `natural − total_shrink`. FALSE for the unpatched code (C15-b). -/
theorem overfull_unit (l : List Item) (pw : PackWidth) (hov : Overfull l pw)
    (hs : totalShrink l .normal ≠ 0) :
    (hpack l pw).order = .normal ∧ (hpack l pw).den ≠ 0 ∧ (hpack l pw).num = -(hpack l pw).den ∧
    natWidth l * (hpack l pw).den + (hpack l pw).num * totalShrink l .normal
      = (natWidth l - totalShrink l .normal) * (hpack l pw).den := by
  obtain ⟨hx', ho', hlt'⟩ := hov
  rcases hpack_cases l pw with ⟨hx, e⟩ | ⟨hx, _, e⟩ | ⟨hx, hz, e⟩ | ⟨hx, ho, hlt, _, e⟩ | ⟨hx, hz, e⟩ |
      ⟨hx, hno, _, e⟩
  · omega
  · omega
  · omega
  · rw [e]
    refine ⟨rfl, by simp [ONE], rfl, ?_⟩
    simp only [ONE]
    omega
  · exact absurd (hz _) hs
  · exact absurd ⟨ho', hlt'⟩ hno

/-- A list without the needed glue is left unset: when nothing is to be done, or every
total of the needed sign is zero, the ratio is 0 and the order normal. -/
theorem no_glue_unset (l : List Item) (pw : PackWidth)
    (h : excess l pw = 0 ∨ (0 < excess l pw ∧ ∀ o, totalStretch l o = 0) ∨
         (excess l pw < 0 ∧ ∀ o, totalShrink l o = 0)) :
    (hpack l pw).num = 0 ∧ (hpack l pw).den ≠ 0 ∧ (hpack l pw).order = .normal := by
  rcases hpack_cases l pw with ⟨hx, e⟩ | ⟨hx, hs, e⟩ | ⟨hx, hz, e⟩ | ⟨hx, ho, hlt, hs, e⟩ | ⟨hx, hz, e⟩ |
      ⟨hx, hno, hs, e⟩ <;> rw [e]
  · exact ⟨rfl, by simp, rfl⟩
  · rcases h with h | ⟨_, h⟩ | ⟨h, _⟩
    · omega
    · exact absurd (h _) hs
    · omega
  · exact ⟨rfl, by simp, rfl⟩
  · rcases h with h | ⟨h, _⟩ | ⟨_, h⟩
    · omega
    · omega
    · exact absurd (h _) hs
  · exact ⟨rfl, by simp [ONE], rfl⟩
  · rcases h with h | ⟨h, _⟩ | ⟨_, h⟩
    · omega
    · omega
    · exact absurd (h _) hs

/-- In particular a list with no glue item at all is never set. -/
theorem no_glue_items_unset (l : List Item) (pw : PackWidth)
    (h : ∀ i ∈ l, ∀ g, i ≠ .glue g) :
    (hpack l pw).num = 0 ∧ (hpack l pw).den ≠ 0 ∧ (hpack l pw).order = .normal := by
  have zs : ∀ o, totalStretch l o = 0 := fun o => sum_map_zero l _ (fun i hi => by
    cases i with
    | glue g => exact absurd rfl (h _ hi g)
    | _ => rfl)
  have zk : ∀ o, totalShrink l o = 0 := fun o => sum_map_zero l _ (fun i hi => by
    cases i with
    | glue g => exact absurd rfl (h _ hi g)
    | _ => rfl)
  apply no_glue_unset
  rcases Int.lt_trichotomy (excess l pw) 0 with hx | hx | hx
  · exact Or.inr (Or.inr ⟨hx, zk⟩)
  · exact Or.inl hx
  · exact Or.inr (Or.inl ⟨hx, zs⟩)

/-- **Refinement**: the packed box is TeX's box — same dimensions, same glue order, and the
signed exact ratio is TeX's `glue_set` with the sign of `glue_sign` (0 when the sign is
normal). FALSE for the unpatched code (C15-a, C15-b, C15-c). -/
theorem hpack_eq_tex (l : List Item) (pw : PackWidth) : (hpack l pw).agrees (texHpack l pw) := by
  have hex : pw.width (natWidth l) - natWidth l = excess l pw := rfl
  rcases hpack_cases l pw with ⟨hx, e⟩ | ⟨hx, hs, e⟩ | ⟨hx, hz, e⟩ | ⟨hx, ho, hlt, hs, e⟩ | ⟨hx, hz, e⟩ |
      ⟨hx, hno, hs, e⟩ <;> rw [e]
  · simp [texHpack, HBox.agrees, hex, hx]
  · have h0 : ¬ excess l pw = 0 := by omega
    simp [texHpack, HBox.agrees, hex, h0, hx, hs]
  · have h0 : ¬ excess l pw = 0 := by omega
    have ho : texOrder (totalStretch l) = .normal := by simp [texOrder, hz]
    simp [texHpack, HBox.agrees, hex, h0, hx, hz, ho]
  · have h0 : ¬ excess l pw = 0 := by omega
    have h1 : ¬ 0 < excess l pw := by omega
    have hl : l ≠ [] := by intro h; subst h; exact hs (totalShrink_nil _)
    simp [texHpack, HBox.agrees, hex, h0, h1, ho, hlt, hs, hl, ONE]
  · have h0 : ¬ excess l pw = 0 := by omega
    have h1 : ¬ 0 < excess l pw := by omega
    have ho : texOrder (totalShrink l) = .normal := by simp [texOrder, hz]
    by_cases hc : excess l pw < 0 ∧ ¬ l = [] <;>
      simp [texHpack, HBox.agrees, hex, h0, h1, hz, ho, hc, ONE]
  · have h0 : ¬ excess l pw = 0 := by omega
    have h1 : ¬ 0 < excess l pw := by omega
    have hno' : ¬ (totalShrink l (texOrder (totalShrink l)) < -excess l pw ∧
        texOrder (totalShrink l) = .normal ∧ l ≠ []) := by
      intro hc; apply hno; refine ⟨hc.2.1, ?_⟩; have := hc.1; rw [hc.2.1] at this; exact this
    simp [texHpack, HBox.agrees, hex, h0, h1, hs, hno']

/-! ## Deepening round: node-by-node filling, the `i32` bound, the `<=` variant -/

/-- **The box-width identity, node by node** (TeX §625 with the exact ratio): when the ratio
`num/den` is applied to every glue node of the box's order (stretch when the box must grow,
shrink when it must contract) and every other node keeps its width, the widths add up to the
box width exactly whenever TeX sets the glue and does not call the box overfull; an overfull
box with some shrinkability comes out at `natural − total_shrink`. Stated times `den`. -/
theorem set_widths_fill (l : List Item) (pw : PackWidth) :
    (0 < excess l pw → totalStretch l (texOrder (totalStretch l)) ≠ 0 →
      (hpack l pw).den ≠ 0 ∧
      sum (l.map (Item.setWidthTimesDen (hpack l pw) true)) = (hpack l pw).width * (hpack l pw).den) ∧
    (Overfull l pw → totalShrink l .normal ≠ 0 →
      (hpack l pw).den ≠ 0 ∧
      sum (l.map (Item.setWidthTimesDen (hpack l pw) false))
        = (natWidth l - totalShrink l .normal) * (hpack l pw).den) ∧
    (excess l pw < 0 → totalShrink l (texOrder (totalShrink l)) ≠ 0 → ¬ Overfull l pw →
      (hpack l pw).den ≠ 0 ∧
      sum (l.map (Item.setWidthTimesDen (hpack l pw) false)) = (hpack l pw).width * (hpack l pw).den) := by
  have hex : excess l pw = pw.width (natWidth l) - natWidth l := rfl
  rcases hpack_cases l pw with ⟨hx, e⟩ | ⟨hx, hs, e⟩ | ⟨hx, hz, e⟩ | ⟨hx, ho, hlt, hs, e⟩ | ⟨hx, hz, e⟩ |
      ⟨hx, hno, hs, e⟩ <;> rw [e] <;>
    refine ⟨fun h hn => ?_, fun hov hn => ?_, fun h hn hov => ?_⟩ <;>
    simp only [sum_setWidth, if_true, Bool.false_eq_true, if_false]
  -- excess = 0
  · omega
  · exact absurd hov.1 (by omega)
  · omega
  -- stretching, set
  · exact ⟨hs, by rw [hex]; exact fill_key _ _ _⟩
  · exact absurd hov.1 (by omega)
  · omega
  -- stretching, nothing to stretch
  · exact absurd (hz _) hn
  · exact absurd hov.1 (by omega)
  · omega
  -- overfull with shrinkability
  · omega
  · refine ⟨by simp [ONE], ?_⟩; simp only [ONE]; omega
  · exact absurd ⟨hx, ho, hlt⟩ hov
  -- shrinking, nothing to shrink
  · omega
  · exact absurd (hz _) hn
  · exact absurd (hz _) hn
  -- shrinking, set
  · omega
  · exact absurd ⟨hov.2.1, hov.2.2⟩ hno
  · exact ⟨hs, by rw [hex]; exact fill_key _ _ _⟩

/-- The executable form of `set_widths_fill` (the one the driver evaluates on the real box)
holds of the model's box. -/
theorem hpack_fills (l : List Item) (pw : PackWidth) : fillsExactly l pw (hpack l pw) = true := by
  obtain ⟨h1, h2, h3⟩ := set_widths_fill l pw
  unfold fillsExactly
  simp only []
  split
  · rename_i h; exact decide_eq_true (h1 h.1 h.2)
  · split
    · rename_i h; exact decide_eq_true (h2 h.1 h.2)
    · split
      · rename_i h; exact decide_eq_true (h3 h.1 h.2.1 h.2.2)
      · rfl

/-- **TeX's size discipline keeps `pack` inside `i32`**: if the absolute widths, the absolute
stretch amounts and the absolute shrink amounts of the list each add up to at most
`max_dimen = 2^30 − 1`, every `[w, h, d]` fits, and the requested width is at most `max_dimen`
in absolute value, then no intermediate value of `pack` (partial sums of widths and of the
eight totals, `natural + additional`, `width − natural`, `−excess`) leaves `i32`: neither the
overflow panic of a checked build nor the wrap of a release build can occur. -/
theorem small_inRange (l : List Item) (pw : PackWidth) (h : Small l pw = true) :
    inRange l pw = true := by
  simp only [Small, Bool.and_eq_true, decide_eq_true_eq] at h
  obtain ⟨⟨⟨⟨hall, hw⟩, hs⟩, hk⟩, ha⟩ := h
  change SW l ≤ maxDimen at hw
  change SS l ≤ maxDimen at hs
  change SK l ≤ maxDimen at hk
  have z : ∀ o, ({} : Totals).get o = 0 := by intro o; cases o <;> rfl
  have hloop : loopRange {} l = true := by
    apply loopRange_of_bounds l {} hall
    · show -(maxDimen - SW l) ≤ (0 : Int) ∧ (0 : Int) ≤ maxDimen - SW l; omega
    · intro o; show -(maxDimen - SS l) ≤ ({} : Totals).get o ∧ ({} : Totals).get o ≤ maxDimen - SS l
      rw [z]; omega
    · intro o; show -(maxDimen - SK l) ≤ ({} : Totals).get o ∧ ({} : Totals).get o ≤ maxDimen - SK l
      rw [z]; omega
  obtain ⟨h1, -, -, -, -⟩ := loop_init l
  have nb := natWidth_bounds l
  have ab := iabs_bounds pw.amount
  simp only [maxDimen] at hw ha
  unfold inRange
  simp only [h1, hloop, Bool.true_and, Bool.and_eq_true, Bool.or_eq_true]
  cases pw with
  | exact w =>
    simp only [PackWidth.width, PackWidth.amount] at *
    exact ⟨⟨i32_of_abs_le (by omega) (by omega), i32_of_abs_le (by omega) (by omega)⟩,
      Or.inr (i32_of_abs_le (by omega) (by omega))⟩
  | additional a =>
    simp only [PackWidth.width, PackWidth.amount] at *
    exact ⟨⟨i32_of_abs_le (by omega) (by omega), i32_of_abs_le (by omega) (by omega)⟩,
      Or.inr (i32_of_abs_le (by omega) (by omega))⟩

/-- **Why `shrink <= -excess` in the overfull test is an equivalent mutant** (sweep, nn 19):
the variant is TeX's box as well; at the boundary it stores `−ONE/ONE` for `excess/shrink`,
the same ratio −1. -/
theorem hpackLe_eq_tex (l : List Item) (pw : PackWidth) : (hpackLe l pw).agrees (texHpack l pw) := by
  have base := hpack_eq_tex l pw
  have hh : hpackLe l pw = (if pw.width (loop {} l).natW - (loop {} l).natW < 0 ∧
        (loop {} l).sh.dominating = .normal ∧
        (loop {} l).sh.get (loop {} l).sh.dominating = -(pw.width (loop {} l).natW - (loop {} l).natW) then
      ⟨(loop {} l).h, pw.width (loop {} l).natW, (loop {} l).d, .normal, -ONE, ONE⟩
      else hpack l pw) := by
    unfold hpackLe hpack finish
    simp only []
    rw [setGlueLe_eq]
  rw [hh]
  split
  · rename_i hc
    obtain ⟨hx, ho, he⟩ := hc
    obtain ⟨e1, e2, e3, e4, e5⟩ := loop_init l
    rw [dominating_eq, texOrder_congr e5] at ho
    rw [dominating_eq, texOrder_congr e5, e5, e1] at he
    rw [e1] at hx
    rw [e1, e2, e3]
    have hex : pw.width (natWidth l) - natWidth l = excess l pw := rfl
    rw [hex] at hx he
    have h0 : ¬ excess l pw = 0 := by omega
    have h1 : ¬ 0 < excess l pw := by omega
    rw [ho] at he
    have hs : ¬ totalShrink l .normal = 0 := by omega
    have hlt : ¬ totalShrink l .normal < -excess l pw := by omega
    simp [texHpack, HBox.agrees, hex, h0, h1, ho, hs, hlt, ONE]
    omega
  · exact base

/-- **Glyph metrics against the raw TFM tables, per (font, character).** With the real font
repository (`TfmFontRepo` over `tfm::File`s) `pack` panics exactly when some glyph names an
unregistered font; otherwise the box width is the target computed from the sum, over the
nodes, of the width-table entry of each character *in its own font* (nothing for a character
the font lacks: no `char_dimens` entry, invalid width index, index outside the table, code
above 255), and height/depth are the maxima (with 0) of the height/depth-table entries of the
characters that exist (0 for an index outside the table) and of what the other nodes ask. -/
theorem hpack_tfm_dims (r : Repo) (ns : List Node) (pw : PackWidth) :
    (hpackTfm r ns pw = none ↔ ¬ ns.all (Node.registered r) = true) ∧
    ∀ b, hpackTfm r ns pw = some b →
      b.width = pw.width (sum (ns.map (Node.width r))) ∧
      b.height = max0 (ns.map (Node.height r)) ∧
      b.depth = max0 (ns.map (Node.depth r)) ∧
      ∃ l, resolve r ns = some l ∧ b.agrees (texHpack l pw) := by
  have hs := resolve_isSome r ns
  constructor
  · unfold hpackTfm
    cases hr : resolve r ns with
    | none =>
      rw [hr] at hs
      simp only [Option.isSome_none] at hs
      simp [← hs]
    | some l =>
      rw [hr] at hs
      simp only [Option.isSome_some] at hs
      simp [← hs]
  · intro b hb
    unfold hpackTfm at hb
    cases hr : resolve r ns with
    | none => rw [hr] at hb; contradiction
    | some l =>
      rw [hr] at hb
      simp only [Option.some.injEq] at hb
      subst hb
      obtain ⟨a, h, d⟩ := resolve_dims r ns l hr
      have hd := height_depth_max l pw
      refine ⟨?_, ?_, ?_, l, rfl, hpack_eq_tex l pw⟩
      · rw [← a, hpack_eq]; exact (setGlue_dims ..).2.2
      · rw [← h]; exact hd.1
      · rw [← d]; exact hd.2.1

/-! ## Non-vacuity: concrete instances that meet the hypotheses -/

/-- `glue(0pt plus 5pt) glue(0pt plus 0fil)` packed to 10pt (the C15-a witness). -/
def wA : List Item := [.glue ⟨0, 327680, .normal, 0, .normal⟩, .glue ⟨0, 0, .fil, 0, .normal⟩]
/-- `glue(10pt minus 2pt)` packed to its natural width − 3pt (overfull; the C15-b witness). -/
def wB : List Item := [.glue ⟨655360, 0, .normal, 131072, .normal⟩]
/-- A box of height 8pt, width 4pt, depth 1pt lowered by 3pt (the C15-c witness). -/
def wC : List Item := [.box 524288 262144 65536 196608]
/-- `glue(1pt minus 0fil)` packed to natural − 1pt (C15-a, shrinking: the order is wrong). -/
def wA' : List Item := [.glue ⟨65536, 0, .normal, 0, .fil⟩]
/-- `glue(0pt minus 3pt)  glue(0pt minus 1fil)` packed to −2pt: shrinks at order fil. -/
def wD : List Item := [.glue ⟨0, 0, .normal, 196608, .normal⟩, .glue ⟨0, 0, .normal, 65536, .fil⟩]

-- `ratio_fills`, stretching: TeX sets `wA` with ratio 2.0 at order normal.
example : 0 < excess wA (.exact 655360) ∧ totalStretch wA (hpack wA (.exact 655360)).order ≠ 0 ∧
    hpack wA (.exact 655360) = ⟨0, 655360, 0, .normal, 655360, 327680⟩ := by decide
-- `ratio_fills`, shrinking, not overfull, infinite order.
example : excess wD (.exact (-131072)) < 0 ∧ totalShrink wD (hpack wD (.exact (-131072))).order ≠ 0 ∧
    ¬ Overfull wD (.exact (-131072)) ∧
    hpack wD (.exact (-131072)) = ⟨0, -131072, 0, .fil, -131072, 65536⟩ := by decide
-- `overfull_unit`.
example : Overfull wB (.additional (-196608)) ∧ totalShrink wB .normal ≠ 0 ∧
    hpack wB (.additional (-196608)) = ⟨0, 458752, 0, .normal, -65536, 65536⟩ := by decide
-- `no_glue_unset`, third disjunct; `no_glue_items_unset`.
example : excess wC (.exact 0) < 0 ∧ (∀ i ∈ wC, ∀ g, i ≠ .glue g) ∧
    hpack wC (.exact 0) = ⟨327680, 0, 262144, .normal, 0, 65536⟩ := by
  refine ⟨by decide, ?_, by decide⟩
  intro i hi g; simp [wC] at hi; subst hi; simp
-- `height_depth_max`: a shifted box: height 8pt − 3pt, depth 1pt + 3pt, width 4pt.
example : hpack wC (.additional 0) = ⟨327680, 262144, 262144, .normal, 0, 1⟩ := by decide

-- `set_widths_fill`, shrinking at order fil: 0pt + 0pt with `−2pt/1pt` of `minus 1fil` = −2pt.
example : sum (wD.map (Item.setWidthTimesDen (hpack wD (.exact (-131072))) false))
    = (hpack wD (.exact (-131072))).width * (hpack wD (.exact (-131072))).den ∧
    fillsExactly wD (.exact (-131072)) (hpack wD (.exact (-131072))) = true := by decide
-- `small_inRange`: the hypothesis is met by ordinary lists, and it is not vacuous that it can fail.
example : Small wA (.exact 655360) = true ∧ Small wB (.additional (-196608)) = true ∧
    Small [.kern 1073741823, .kern 1] (.additional 0) = false ∧
    inRange [.kern 2147483647, .kern 1] (.additional 0) = false := by decide
-- `hpackLe_eq_tex`: at the boundary `shrink = −excess` the two models store different pairs.
example : hpack wB (.additional (-131072)) = ⟨0, 524288, 0, .normal, -131072, 131072⟩ ∧
    hpackLe wB (.additional (-131072)) = ⟨0, 524288, 0, .normal, -65536, 65536⟩ := by decide

-- `hpack_tfm_dims`: the same code `97` in two fonts with different tables, an invalid width
-- index, a height index outside the table, a code above 255, and an unregistered font.
def wFont0 : TfmFont := ⟨[(97, ⟨1, 1, 0⟩), (98, ⟨0, 1, 1⟩)], [0, 500], [0, 430], [0, 10]⟩
def wFont1 : TfmFont := ⟨[(97, ⟨2, 5, 1⟩)], [0, 7, 800], [0, 600], [0, 25]⟩
example : hpackTfm [(0, wFont0), (1, wFont1)]
      [.glyph 97 0, .glyph 97 1, .glyph 98 0, .glyph 300 0, .other (.kern 3)] (.additional 0)
    = some ⟨430, 1303, 25, .normal, 0, 1⟩ ∧
    hpackTfm [(0, wFont0), (1, wFont1)] [.glyph 97 0, .glyph 97 2] (.additional 0) = none := by decide

/-! ## The unpatched code (`hpackOld`) violates the property — one witness per defect -/

/-- C15-a (stretching): the zero-amount `fil` glue takes the order over, its total is zero,
and the box is left unset; TeX sets it with ratio 2.0 at order normal. `ratio_fills` and
`hpack_eq_tex` are false for `hpackOld`. -/
example : hpackOld wA (.exact 655360) = ⟨0, 655360, 0, .normal, 0, 1⟩ ∧
    texHpack wA (.exact 655360) = ⟨0, 655360, 0, .stretching, .normal, 655360, 327680⟩ ∧
    ¬ (hpackOld wA (.exact 655360)).agrees (texHpack wA (.exact 655360)) := by decide

/-- C15-a (shrinking): the order `fil` is reported although the total shrink at `fil` is
zero: `order_highest_nonzero` is false for `hpackOld`. -/
example : (hpackOld wA' (.additional (-65536))).order = .fil ∧ totalShrink wA' .fil = 0 ∧
    (hpack wA' (.additional (-65536))).order = .normal := by decide

/-- C15-b: the overfull box gets ratio `+1` (stretching by the code's own sign convention)
instead of `−1`: `overfull_unit` and `hpack_eq_tex` are false for `hpackOld`. -/
example : hpackOld wB (.additional (-196608)) = ⟨0, 458752, 0, .normal, 65536, 65536⟩ ∧
    ¬ (hpackOld wB (.additional (-196608))).agrees (texHpack wB (.additional (-196608))) := by decide

/-- C15-c: a nested box contributes its (shifted) height to the width and its width to the
height: `natural_width_sum`, `height_depth_max` and `hpack_eq_tex` are false for `hpackOld`. -/
example : hpackOld wC (.additional 0) = ⟨262144, 327680, 262144, .normal, 0, 1⟩ ∧
    ¬ (hpackOld wC (.additional 0)).agrees (texHpack wC (.additional 0)) := by decide

end C15
