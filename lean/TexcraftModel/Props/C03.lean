import TexcraftModel.Lemmas.C03
import TexcraftModel.Lemmas.C03Sched
import TexcraftModel.Lemmas.C03Bytes

/-! # C03 — lexing follows TeX's scanner; every token traces to its source position

`lexAll cfg rep src` is the model of calling `Lexer::next(config, _, rep)` on a freshly
registered source until it reports the end of the input (`Model/C03.lean`; the model describes
the code with `fixes/C03-a.patch` and `fixes/C03-b.patch` applied), `trace src key` the model of
`Tracer::trace`, `lexTraced` the two composed (what a user of the public API observes), and
`Spec.specAll cfg rep src` the TeX §343–§356 line scanner: split into lines, right-trim, append
the end-line character, scan from state N with `^^` reduction and control-sequence formation,
every item with the line number, column and line text it started at.

All theorems are for every source text (`List Char`, any characters), every category
function `cfg.cat : Char → CatCode`, every `cfg.endline : Option Char` and both values of
`report_end_of_line`. Nothing is partial. -/
namespace C03

/-- **Lexing follows TeX's scanner and every token traces to its source position** (full
strength): the results of the lexer, with every key run through `Tracer::trace`, are exactly
the items of the specification — same tokens (category, character, control-sequence name),
same invalid-character reports, same end-of-line reports, and every position is the line
number, the column and the text of the source line of the character the item started at (for an
item produced by an expanded code `^^c`/`^^xy`: its last character; for the end-line
character: the first trimmed position). -/
theorem lex_eq_spec (cfg : Cfg) (rep : Bool) (src : List Char) :
    lexTraced cfg rep src = Spec.specAll cfg rep src :=
  lexTraced_eq_specAll cfg rep src

/-- **Lexing never panics** (and the model's recursion budgets always suffice): the run
contains no panic outcome and no out-of-fuel outcome, and it ends with `EndOfInput`. In
particular `KeyRange::next`/`peek` never see an exhausted range ("requested more trace keys
than are in the range") and `advance` never unwraps `None`. -/
theorem lex_total (cfg : Cfg) (rep : Bool) (src : List Char) :
    Res.panic ∉ lexAll cfg rep src ∧ Res.fuel ∉ lexAll cfg rep src ∧
      (lexAll cfg rep src).getLast? = some .endOfInput := by
  have h := lexAll_ok cfg rep src
  exact ⟨fun hm => (h.1 _ hm).1 rfl, fun hm => (h.1 _ hm).2.1 rfl, h.2⟩

/-- **Trace keys stay in the range**: every key attached to a token or to an invalid character
is at most the number of characters of the source, hence below the number of keys that
`Tracer::register_source_code` reserved (`byte length + 1`, or 1 for the empty text). -/
theorem keys_in_range (cfg : Cfg) (rep : Bool) (src : List Char) :
    ∀ r ∈ lexAll cfg rep src, ∀ k, r.pos? = some k → k ≤ src.length ∧ k < keyLimit src := by
  intro r hr k hk
  have h := ((lexAll_ok cfg rep src).1 r hr).2.2
  have hl := length_lt_keyLimit src
  cases r <;> simp [Res.pos?] at hk <;> subst hk <;> simp [Res.keyLe] at h <;> omega

/-- **`Tracer::trace` round trip**: in a text that consists of the complete lines `ls`, then the
line `text`, then nothing or a newline and more, the key `offset of the line + col` traces to
line number `ls.length + 1`, column `col` and line content `text` — for every column of the
line including the position of its newline (or one past the end of the text), which is where
an end-line character without a source character is reported. -/
theorem trace_roundtrip (ls : List (List Char)) (text post : List Char) (col : Nat)
    (hls : ∀ l ∈ ls, '\n' ∉ l) (ht : '\n' ∉ text) (hp : post = [] ∨ post.head? = some '\n')
    (hc : col ≤ text.length) :
    trace (joined ls ++ (text ++ post)) ((joined ls).length + col) = ⟨ls.length + 1, col, text⟩ :=
  trace_spec ls text post col hls ht hp hc

/-- The hypotheses of `trace_roundtrip` are met by a real instance: `"ab\ncd\nef"`, the `d`. -/
example : trace "ab\ncd\nef".toList 4 = ⟨2, 1, "cd".toList⟩ :=
  trace_roundtrip ["ab".toList] "cd".toList "\nef".toList 1 (by decide) (by decide) (by decide)
    (by decide)

/-- **The specification is total**: the scan of every line terminates within its budget (the
specification never yields an out-of-fuel or panic item). -/
theorem spec_total (cfg : Cfg) (rep : Bool) (src : List Char) :
    Res.fuel ∉ Spec.specAll cfg rep src ∧ Res.panic ∉ Spec.specAll cfg rep src := by
  rw [← lex_eq_spec]
  have h := lex_total cfg rep src
  unfold lexTraced
  constructor
  · intro hm
    obtain ⟨r, hr, e⟩ := List.mem_map.mp hm
    cases r <;> simp [Res.map] at e
    exact h.2.1 hr
  · intro hm
    obtain ⟨r, hr, e⟩ := List.mem_map.mp hm
    cases r <;> simp [Res.map] at e
    exact h.1 hr

/-- **Byte offsets are sums of whole characters** (`RawLexer` works with byte positions; the
model with characters): the byte length of a text is the sum of `len_utf8` of its characters,
so every position `RawLexer` computes by adding `len_utf8` of consumed characters is a
character boundary; and the in-place write of `maybe_apply_caret_notation` replaces a one-byte
character by a one-byte character. -/
theorem utf8_boundary (a b : List Char) (c : Char) (h : c.toNat < 128) :
    byteLen (a ++ b) = byteLen a + byteLen b ∧ utf8Len c = 1 ∧ utf8Len (caretChar c) = 1 := by
  refine ⟨byteLen_append a b, by simp [utf8Len, h], ?_⟩
  have h1 : ∀ n : Nat, n < 128 → (Char.ofNat n).toNat = n := by
    intro n hn
    have : n.isValidChar := by left; omega
    simp [Char.ofNat, this, Char.ofNatAux, Char.toNat]
  unfold caretChar utf8Len
  split
  · rw [h1 _ (by omega), if_pos (by omega)]
  · rw [h1 _ (by omega), if_pos (by omega)]

/-! ## Non-vacuity: concrete runs (plain-TeX-like categories, `\endlinechar` = CR) -/

def plainCat (c : Char) : CatCode :=
  if c = '\\' then .escape else if c = '{' then .beginGroup else if c = '}' then .endGroup
  else if c = '^' then .superscript else if c = ' ' then .space else if c = '\r' then .endOfLine
  else if c = '%' then .comment else if c = '~' then .active else if c = '\x7f' then .invalid
  else if c = '\x00' then .ignored else if c.isAlpha then .letter else .other

def plain : Cfg := { cat := plainCat, endline := some '\r' }

/-- C03-a repaired: `^^5a` is the single letter `Z`, reported at the column of the `a`; the
end-line character gives a space token at the first trimmed position (column 4). Before
`fixes/C03-a.patch` the code delivers `u` (column 2) and `a` (column 3). -/
example : lexTraced plain true "^^5a".toList =
    [.token (.chr 'Z' .letter) ⟨1, 3, "^^5a".toList⟩, .token (.chr ' ' .space) ⟨1, 4, "^^5a".toList⟩,
     .endOfInput] := by decide +kernel

/-- C03-b repaired: `^^é` stays `^`, `^`, `é`. Before `fixes/C03-b.patch` the code delivers
only `é` (column 2) and the space. -/
example : lexTraced plain true "^^é".toList =
    [.token (.chr '^' .superscript) ⟨1, 0, "^^é".toList⟩,
     .token (.chr '^' .superscript) ⟨1, 1, "^^é".toList⟩,
     .token (.chr 'é' .other) ⟨1, 2, "^^é".toList⟩,
     .token (.chr ' ' .space) ⟨1, 3, "^^é".toList⟩, .endOfInput] := by decide +kernel

/-- Reduction inside a name, states N/M/S, `\par` from an empty line, skipped blanks, the keys
(0, 7, 8, 9, 11, 12 — within `keys_in_range`) and their traces. -/
example : lexAll plain true "\\a^^5a b\n\n x".toList =
    [.token (.cs "aZ".toList) 0, .token (.chr 'b' .letter) 7, .token (.chr ' ' .space) 8,
     .endOfLine, .token (.cs parName) 9, .endOfLine, .token (.chr 'x' .letter) 11,
     .token (.chr ' ' .space) 12, .endOfInput] := by decide +kernel

/-! ## Configuration that changes between calls (just-in-time lexing)

`sched : List (Res Pos) → Cfg` gives the configuration of the next call of `Lexer::next` as a
function of everything delivered so far (commands are executed between calls). The
specification `Spec.specSched` samples exactly where TeX does: `cat_code` of a character in the
call of `get_next` that looks at it (a character that only ends a control word is looked at in
that call and categorised again by the call that consumes it), `end_line_char` in the call that
brings the line in. -/

/-- **Lexing follows TeX's scanner under a changing configuration** (full strength): for every
schedule, the lexer called with `sched (history)` at each call delivers, with traces, exactly
what the TeX scanner delivers when the configuration in force during each `get_next` is
`sched (history)`. -/
theorem lex_eq_spec_sched (sched : List (Res Pos) → Cfg) (rep : Bool) (src : List Char) :
    lexTracedSched sched rep src = Spec.specSched sched rep src :=
  lexTracedSched_eq sched rep src

/-- No panic, no exhausted budget, `EndOfInput` reached — whatever the schedule. -/
theorem lex_total_sched (sched : List (Res Pos) → Cfg) (rep : Bool) (src : List Char) :
    Res.panic ∉ lexTracedSched sched rep src ∧ Res.fuel ∉ lexTracedSched sched rep src ∧
      (lexTracedSched sched rep src).getLast? = some .endOfInput := by
  have h := lexTracedSched_ok sched rep src
  exact ⟨fun hm => (h.1 _ hm).1 rfl, fun hm => (h.1 _ hm).2 rfl, h.2⟩

/-- The two specifications agree when the configuration never changes. -/
theorem spec_sched_const (cfg : Cfg) (rep : Bool) (src : List Char) :
    Spec.specSched (fun _ => cfg) rep src = Spec.specAll cfg rep src :=
  specSched_const cfg rep src

/-- Just in time: `\m@` where delivering `\m` makes `@` a letter (`\makeatletter@`). The `@` that
ended the name `m` was looked at as an other character, and is a letter when it is consumed. -/
example :
    let atLetter : Cfg := { cat := fun c => if c = '@' then .letter else plainCat c, endline := none }
    let sched : List (Res Pos) → Cfg := fun h => if h.length ≥ 1 then atLetter else { plain with endline := none }
    Spec.specSched sched false "\\m@".toList =
      [.token (.cs ['m']) ⟨1, 0, "\\m@".toList⟩, .token (.chr '@' .letter) ⟨1, 2, "\\m@".toList⟩,
       .endOfInput] := by decide +kernel

/-! ## Byte positions (deepening round)

`Model/C03Bytes.lean` transcribes `RawLexer` with the byte offsets the code really has
(`next_line`, `pos`, `start`, `end`, `char_2_start`, `char_3_start`), every `&s[p..]` /
`&s[a..b]` with its panic off a character boundary, `advance`'s `unwrap`, the `unsafe` byte write
and `replace_range` of the `^^` rewrite (`none` = any of these goes wrong), and the `Lexer` on
top of it. -/

/-- **The byte-level lexer never slices off a character boundary** (nor writes into a multi-byte
character, nor unwraps `None` in `advance`), for arbitrary multi-byte text, and it delivers
exactly what the character-level model delivers. This replaces the two facts of `utf8_boundary`
by a proof over the transcribed offset arithmetic. -/
theorem blex_eq_lex (cfg : Cfg) (rep : Bool) (src : List Char) :
    Bytes.bLexAll cfg rep src = some (lexAll cfg rep src) :=
  Bytes.bLexAll_eq cfg rep src

/-- Hence the byte-level lexer with the tracer is the TeX scanner with positions. -/
theorem blex_eq_spec (cfg : Cfg) (rep : Bool) (src : List Char) :
    (Bytes.bLexAll cfg rep src).map (List.map (Res.map (trace src))) = some (Spec.specAll cfg rep src) := by
  rw [blex_eq_lex, ← lex_eq_spec]; rfl

/-- **Every reported position lies in the source**: for every token and every invalid character
the lexer delivers, `Tracer::trace` of its key is `(n, col, text)` where `text` is the `n`-th
line of the source (lines ended by LF) and `col` is a column of that line, at most the position
of its newline (where an end-line character is reported). -/
theorem positions_in_source (cfg : Cfg) (rep : Bool) (src : List Char) :
    ∀ r ∈ lexTraced cfg rep src, ∀ p, r.pos? = some p →
      1 ≤ p.line ∧ (Spec.splitLines src)[p.line - 1]? = some p.text ∧ p.col ≤ p.text.length := by
  rw [lex_eq_spec]
  exact lines_positions cfg rep (Spec.splitLines src) 1

/-- **Why mutant 23 of the sweep is equivalent** (`next_line = end + num_spaces.max(1)`): same
state after `start_new_line` except `next_line`, which differs only when the source is used up
(`len` against `len + 1`), where the only reader of `next_line`, the test
`next_line >= source_code.len()`, gives the same answer. -/
theorem equiv_mutant_23 (cfg : Cfg) {b : Bytes.BRaw} {r : Raw} (h : Bytes.Rep b r) :
    ∃ m b' n, b.startNewLine cfg = some (m, b') ∧
      b.startNewLine23 cfg = some (m, { b' with nextLine := n }) ∧
      (n = b'.nextLine ∨ (b'.nextLine = byteLen b.src ∧ n = byteLen b.src + 1)) :=
  Bytes.mutant23_equiv cfg h

/-- **Why mutant 25 of the sweep is equivalent**: the reordered, guarded loop of `Tracer::trace`
computes the same triple from every index at or before the wanted offset (it starts at 0). -/
theorem equiv_mutant_25 (off : Nat) (content : List Char) :
    traceLoop25 off 0 1 0 content content = traceLoop off 0 1 0 content content :=
  traceLoop25_eq off content 0 1 0 content (Nat.zero_le _)

/-- Wide characters around an expanded code, byte level: `é^^M€` (the `^^M` is rewritten in
place between a 2-byte and a 3-byte character). -/
example : Bytes.bLexAll plain true "é^^M€".toList = some (lexAll plain true "é^^M€".toList) :=
  blex_eq_lex _ _ _

example : (Bytes.bLexAll plain true "é^^M€".toList).map List.length = some 3 := by decide +kernel

/-- The panic is really modelled: one byte into `é` is not a boundary (`&"éa"[1..]` panics), two
bytes is; and the `unsafe` write refuses a multi-byte character. -/
example : Bytes.sliceFrom "éa".toList 1 = none ∧ Bytes.sliceFrom "éa".toList 2 = some ['a'] ∧
    Bytes.writeAscii "éa".toList 0 'M' = none ∧ Bytes.writeAscii "éa".toList 2 'M' = some ['é', 'M'] := by
  decide

end C03
