import TexcraftModel.Lemmas.C10Checks
import TexcraftModel.Lemmas.C10Ser
import TexcraftModel.Lemmas.C10Cst
import TexcraftModel.Lemmas.C10CstRt
import TexcraftModel.Lemmas.C10Num
import TexcraftModel.Lemmas.C10Body

/-!
# C10 — property theorems (TFM reader front end)

`rawDeserialize` is the model of the *repaired* `RawFile::deserialize`
(`fixes/C10-a.patch`, `fixes/C10-b.patch` applied); `rawDeserializePre` is the code as it stood.

* `raw_total`         every byte string: a layout or one of the twelve documented errors, never a panic
* `raw_bounds`        an accepted file: the eleven sub-files tile `[0, 4·lf)`, inside the file
* `body_total`, `reader_total`  `from_raw_file` never indexes outside a sub-file of an accepted
                      layout; hence the whole of `File::deserialize` is total
* `raw_junk`          the "extra junk" warning is issued exactly when the file is longer than `4·lf`
* `layout_roundtrip`  every consistent size table followed by a long enough body is accepted,
                      with the layout the table describes (the reader accepts what a writer emits,
                      at the level of sub-file sizes)
* `serialize_total`, `serialize_consistent`, `raw_accepts_serialized`  the size table `serialize`
                      writes for a `ShapeOK` file never panics, is `Consistent`, and is accepted
* `cst_total`, `cst_step_consumes`, `cst_reads_everything`  the PL lexer/CST builder always
                      returns a tree and warnings and reads the whole input
* `cst_balanced_roundtrip`  the canonical rendering of a well-formed forest reads back without
                      warnings as a forest of the same shape
* `number_total`      the `FixWord` reader's `unwrap`s never fail
* `clamp_total`, `clamp_tag_total`, `clamp_piece_total`   the index clamps of `validate_and_fix`
* the two `example`s at the end: the pre-fix code panics at the witnesses C10-a and C10-b

Partial (stated in `C10_full_statement`): the bodies of the sub-files, the lig/kern and
next-larger validators and the whole PL front end are not modelled; their totality and
"PL→TFM output re-reads" are explored by the correspondence harness only.
-/
namespace C10

/-- The property in full, as a statement about the real functions; what is *proved* below is
its restriction to `RawFile::deserialize` and the index clamps. `tfmToPl`/`plToTfm` stand for
`tfm::algorithms::{tfm_to_pl, pl_to_tfm}` with a panic outcome made explicit. -/
def C10_full_statement
    (tfmToPl : List Nat → Option (Except DeErr String)) (plToTfm : String → Option (List Nat)) : Prop :=
  (∀ b, tfmToPl b ≠ none) ∧ (∀ t, plToTfm t ≠ none) ∧
  (∀ t out, plToTfm t = some out → ∃ L, rawDeserialize out = .ok L false)

/-- Every input falls in one of two classes: a documented error, or an accepted layout that is
exactly the one described by the size table. -/
private theorem raw_cases (b : List Nat) :
    (∃ e j, rawDeserialize b = .err e j) ∨
    (∃ s bc ec, rawDeserialize b = .ok ⟨s, bc, ec, slicesFrom 0 s.parts⟩ (decide (4 * s.lf < b.length)) ∧
      s.lf = sumI s.parts ∧ (∀ u ∈ s.parts, 0 ≤ u) ∧ 4 * s.lf ≤ b.length ∧ 2 ≤ s.lh ∧ s.InRange) := by
  unfold rawDeserialize
  generalize hh : b.take 24 = hdr
  match hdr, hh with
  | [], _ => left; exact ⟨_, _, rfl⟩
  | [b0], _ => left; exact ⟨_, _, rfl⟩
  | b0 :: b1 :: t, hh =>
    simp only [rawCore]
    by_cases h1 : i16OfBytes b0 b1 < 0
    · left; exact ⟨_, _, by rw [if_pos h1]⟩
    rw [if_neg h1]
    by_cases h2 : i16OfBytes b0 b1 = 0
    · left; exact ⟨_, _, by rw [if_pos h2]⟩
    rw [if_neg h2]
    by_cases h3 : b.length < (i16OfBytes b0 b1).toNat * 4
    · left; exact ⟨_, _, by rw [if_pos h3]⟩
    rw [if_neg h3]
    by_cases h4 : i16OfBytes b0 b1 ≤ 3 ∨ (True ∧ b.length < 24)
    · left; exact ⟨_, _, by rw [if_pos h4]⟩
    rw [if_neg h4]
    have hlen : 24 ≤ (b0 :: b1 :: t).length := by
      rw [← hh, List.length_take]
      have : ¬ b.length < 24 := fun h => h4 (Or.inr ⟨trivial, h⟩)
      omega
    obtain ⟨s, hs⟩ := sizesOf_some _ hlen
    have hr := sizesOf_range _ s hs
    have hlf := sizesOf_lf b0 b1 t s hs
    rw [hs]
    simp only []
    have hfit : 4 * s.lf ≤ b.length := by rw [hlf]; omega
    have hj : decide ((i16OfBytes b0 b1).toNat * 4 < b.length) = decide (4 * s.lf < b.length) := by
      rw [hlf]
      congr 1
      apply propext
      constructor <;> intro h <;> omega
    rw [hj]
    rcases checks_spec s b.length (decide (4 * s.lf < b.length)) hr hfit with ⟨e, he⟩ | ⟨hok, h5, h6, h7⟩
    · left; exact ⟨e, _, he⟩
    · right; exact ⟨s, _, _, hok, h5, h6, hfit, h7, hr⟩

/-- **Totality.** On every byte string the repaired front end returns a layout or one of the
documented errors; none of the four panic sites (`get(0..24).expect`, the sixteen-bit sums,
`&b[..u]`, the `bc` cast) is reachable. -/
theorem raw_total (b : List Nat) (site : Site) : rawDeserialize b ≠ .panic site := by
  rcases raw_cases b with ⟨e, j, h⟩ | ⟨s, bc, ec, h, _⟩ <;> rw [h] <;> simp

/-- **Bounds.** If a file is accepted, its eleven sub-files are consecutive, start with the
24-byte size table at offset 0, have four times their declared word counts, cover exactly
`[0, 4·lf)`, and that range lies inside the file: every later `&raw_file.xxx[..]` is in bounds. -/
theorem raw_bounds (b : List Nat) (L : RawLayout) (junk : Bool) (h : rawDeserialize b = .ok L junk) :
    LayoutOK b.length L ∧ L.slices.length = 11 ∧ L.slices.head? = some ⟨0, 24⟩ := by
  rcases raw_cases b with ⟨e, j, h'⟩ | ⟨s, bc, ec, h', hlf, hnn, hfit, _, _⟩
  · rw [h'] at h; simp at h
  · rw [h'] at h
    simp only [Outcome.ok.injEq] at h
    obtain ⟨hL, _⟩ := h
    subst hL
    have hg := getSlices_eq b.length s.parts 0 hnn (by omega)
    have ⟨t1, t2, t3⟩ := getSlices_tiles b.length s.parts 0 _ hg (Nat.zero_le _)
    refine ⟨⟨t1, ?_, t2⟩, ?_, ?_⟩
    · simp only [] ; omega
    · simp [slicesFrom_length, Sizes.parts]
    · simp [Sizes.parts, slicesFrom]

/-- The warning `InternalFileLengthIsSmall` is issued exactly when the file is longer than `4·lf`. -/
theorem raw_junk (b : List Nat) (L : RawLayout) (junk : Bool) (h : rawDeserialize b = .ok L junk) :
    junk = decide (4 * L.sizes.lf < b.length) := by
  rcases raw_cases b with ⟨e, j, h'⟩ | ⟨s, bc, ec, h', _⟩
  · rw [h'] at h; simp at h
  · rw [h'] at h
    simp only [Outcome.ok.injEq] at h
    obtain ⟨hL, hj⟩ := h
    subst hL
    exact hj.symm

/-- Non-vacuity of `raw_bounds`: the minimal font (48 bytes) is accepted. -/
example : (match rawDeserialize ([0, 12, 0, 2, 0, 1, 0, 0, 0, 1, 0, 1, 0, 1, 0, 1, 0, 0, 0, 0, 0, 0, 0, 0] ++
    List.replicate 24 0) with | .ok _ false => true | _ => false) = true := by decide

/-! ## The whole reader: `from_raw_file` on an accepted layout -/

/-- **No index leaves its sub-file.** For every file the front end accepts, `from_raw_file`
(header words and strings with their length-byte guards, char-info words, the four dimension
tables, the lig/kern program with its boundary words, kerns, extensible recipes, parameters)
reads every sub-file without indexing outside it: each sub-file is a whole number of words,
the header has at least two, and the lig/kern table at most 2^15. -/
theorem body_total (b : List Nat) (L : RawLayout) (junk : Bool) (h : rawDeserialize b = .ok L junk) :
    ∃ f, Body.fromSlices L.beginChar L.endChar (L.slices.map (Body.slice b)) = some f := by
  rcases raw_cases b with ⟨e, j, h'⟩ | ⟨s, bc, ec, h', hlf, hnn, hfit, hlh, hr⟩
  · rw [h'] at h; simp at h
  · rw [h'] at h
    simp only [Outcome.ok.injEq] at h
    obtain ⟨hL, _⟩ := h
    subst hL
    have hl := Body.slices_lengths b s.parts 0 hnn (by omega)
    have hnl := hr s.nl (by simp [Sizes.toList])
    simp only [InI16] at hnl
    exact Body.fromSlices_ok _ _ 6 s.lh (s.ec - s.bc + 1) s.nw s.nh s.nd s.ni s.nl s.nk s.ne s.np _ hl hlh (by omega)

/-- **The TFM reader is total.** `File::deserialize` — the front end followed by
`from_raw_file` — returns a file or one of the twelve documented errors on every byte string;
no panic site of deserialize.rs (the slice and `expect` sites of the front end, the word
indexing `b[0..3]`/`&b[4..]`, the string guards `b.get(1).expect` and `len - 2`, the boundary
words `&b[r..]` and `instructions.len() - 1`) is reachable. -/
theorem reader_total (b : List Nat) : Body.readFile b ≠ .panic := by
  unfold Body.readFile
  cases hraw : rawDeserialize b with
  | panic site => exact absurd hraw (raw_total b site)
  | err e j => simp
  | ok L j =>
    obtain ⟨f, hf⟩ := body_total b L j hraw
    simp [hf]

/-- Non-vacuity: the minimal font is read into a file with one width, height, depth, italic. -/
example : (match Body.readFile ([0, 12, 0, 2, 0, 1, 0, 0, 0, 1, 0, 1, 0, 1, 0, 1, 0, 0, 0, 0, 0, 0, 0, 0] ++
    List.replicate 24 0) with | .ok f false => f.widths.length == 1 && f.chars.length == 0 | _ => false) = true := by
  decide

/-! ## What a writer emits is accepted -/

private theorem i16OfBytes_toBytes (x : Int) (h0 : 0 ≤ x) (h1 : x ≤ 32767) :
    i16OfBytes ((x % 65536).toNat / 256) ((x % 65536).toNat % 256) = x := by
  unfold i16OfBytes
  simp only []
  split <;> omega

private theorem checks_consistent (s : Sizes) (hc : Consistent s) (len : Nat) (junk : Bool)
    (hfit : 4 * s.lf ≤ len) : checks false s len junk = .ok (layoutOf s) junk := by
  obtain ⟨c1, c2, c3, c3', c4, c5, c6, c7, c8, c9, c10, c11, c12, c13, c14, c15⟩ := hc
  have hr : s.InRange := by
    intro x hx
    simp only [Sizes.toList, List.mem_cons, List.not_mem_nil, or_false] at hx
    unfold InI16
    rcases hx with rfl | rfl | rfl | rfl | rfl | rfl | rfl | rfl | rfl | rfl | rfl | rfl <;> omega
  have hsum := sumI_parts s
  rcases checks_spec s len junk hr hfit with ⟨e, he⟩ | ⟨hok, _, _, _⟩
  · -- no error branch is taken: go through the same conditions
    exfalso
    have hv := validLf32 s hr
    simp only [checks, Bool.false_eq_true, if_false, hv] at he
    have hneg : ¬ (s.lh < 0 ∨ s.bc < 0 ∨ s.ec < 0 ∨ s.nw < 0 ∨ s.nh < 0 ∨ s.nd < 0 ∨ s.ni < 0 ∨ s.nl < 0 ∨
      s.nk < 0 ∨ s.ne < 0 ∨ s.np < 0) := by omega
    rw [if_neg hneg, if_neg (by omega : ¬ s.lh < 2)] at he
    have e1 : (if s.ec = 32767 then (32767 : Int) else s.ec + 1) = s.ec + 1 := by
      rw [if_neg (by omega)]
    simp only [e1] at he
    rw [if_neg (by omega : ¬ s.ec + 1 < s.bc), if_neg (by omega : ¬ (s.bc < s.ec + 1 ∧ 255 < s.ec)),
      if_neg (by omega : ¬ (s.bc < s.ec + 1 ∧ 255 < s.bc)),
      if_neg (by omega : ¬ (s.nw = 0 ∨ s.nh = 0 ∨ s.nd = 0 ∨ s.ni = 0)), if_neg (by omega : ¬ 256 < s.ne)] at he
    have h6 : ¬ (¬ (-lim16 ≤ sumI s.parts ∧ sumI s.parts < lim16) ∨ s.lf ≠ sumI s.parts) := by
      simp only [lim16]; omega
    rw [if_neg h6] at he
    have hnn : ∀ u ∈ s.parts, 0 ≤ u := by
      intro u hu
      simp only [Sizes.parts, List.mem_cons, List.not_mem_nil, or_false] at hu
      rcases hu with rfl | rfl | rfl | rfl | rfl | rfl | rfl | rfl | rfl | rfl | rfl <;> omega
    rw [finish_eq len s _ _ junk (by omega) hnn (by omega)] at he
    simp at he
  · rw [hok]
    have e1 : (if s.ec = 32767 then (32767 : Int) else s.ec + 1) = s.ec + 1 := by
      rw [if_neg (by omega)]
    simp only [layoutOf, bcecOf, e1]
    by_cases hle : s.bc ≤ s.ec
    · have : s.bc < s.ec + 1 := by omega
      simp [hle, this]
    · have : ¬ s.bc < s.ec + 1 := by omega
      simp [hle, this]

/-- **The reader accepts what a writer emits.** For every consistent size table `s` (the
conditions a `.tfm` writer must meet, stated in `Consistent`), the 24 bytes
`SubFileSizes::into` writes for it followed by any body of at least `4·lf − 24` bytes are
accepted, with exactly the layout `s` describes, and with the junk warning iff the body is
longer than that. -/
theorem layout_roundtrip (s : Sizes) (hc : Consistent s) (body : List Nat)
    (hlen : 4 * s.lf ≤ 24 + body.length) :
    rawDeserialize (headerBytes s ++ body) = .ok (layoutOf s) (decide (4 * s.lf < 24 + body.length)) := by
  have hc' := hc
  obtain ⟨c1, c2, c3, c3', c4, c5, c6, c7, c8, c9, c10, c11, c12, c13, c14, c15⟩ := hc
  have hhl : (headerBytes s).length = 24 := by simp [headerBytes, i16ToBytes]
  have htake : (headerBytes s ++ body).take 24 = headerBytes s := by
    rw [← hhl]; exact List.take_left' rfl
  have hlength : (headerBytes s ++ body).length = 24 + body.length := by simp [hhl]
  have hwords : sizesOf (headerBytes s) = some s := by
    have hb : headerBytes s = i16ToBytes s.lf ++ (i16ToBytes s.lh ++ (i16ToBytes s.bc ++ (i16ToBytes s.ec ++
        (i16ToBytes s.nw ++ (i16ToBytes s.nh ++ (i16ToBytes s.nd ++ (i16ToBytes s.ni ++ (i16ToBytes s.nl ++
        (i16ToBytes s.nk ++ (i16ToBytes s.ne ++ (i16ToBytes s.np ++ []))))))))))) := by
      simp [headerBytes, List.append_assoc]
    rw [sizesOf, hb]
    rw [i16_roundtrip s.lf (by omega) (by omega), i16_roundtrip s.lh (by omega) (by omega),
      i16_roundtrip s.bc (by omega) (by omega), i16_roundtrip s.ec (by omega) (by omega),
      i16_roundtrip s.nw (by omega) (by omega), i16_roundtrip s.nh (by omega) (by omega),
      i16_roundtrip s.nd (by omega) (by omega), i16_roundtrip s.ni (by omega) (by omega),
      i16_roundtrip s.nl (by omega) (by omega), i16_roundtrip s.nk (by omega) (by omega),
      i16_roundtrip s.ne (by omega) (by omega), i16_roundtrip s.np (by omega) (by omega)]
    simp [words]
  unfold rawDeserialize
  rw [htake, hlength]
  have hlf := i16OfBytes_toBytes s.lf (by omega) (by omega)
  have hcore : rawCore false (headerBytes s) (24 + body.length) =
      checks false s (24 + body.length) (decide (4 * s.lf < 24 + body.length)) := by
    have hb : ∃ t, headerBytes s = ((s.lf % 65536).toNat / 256) :: ((s.lf % 65536).toNat % 256) :: t := by
      exact ⟨_, by simp only [headerBytes, i16ToBytes, List.cons_append, List.nil_append]; rfl⟩
    obtain ⟨t, ht⟩ := hb
    have hs := hwords
    rw [ht] at hs ⊢
    simp only [rawCore, hlf]
    rw [if_neg (by omega), if_neg (by omega), if_neg (by omega)]
    rw [if_neg (by
      intro h
      rcases h with h | ⟨_, h⟩ <;> omega)]
    rw [hs]
    simp only []
    congr 1
    apply decide_eq_decide.mpr
    constructor <;> intro h <;> omega
  rw [hcore]
  exact checks_consistent s hc' _ _ hlen

/-- Non-vacuity of `layout_roundtrip`: the size table of `cmr10.tfm`. -/
example : Consistent ⟨324, 18, 0, 127, 36, 16, 10, 5, 88, 10, 0, 7⟩ := by
  constructor <;> decide

/-! ## The size table the serialiser writes (`serialize`, counts only) -/

/-- **The serialiser does not panic on its size arithmetic.** For every shape that meets
`ShapeOK` (the bounds `From<pl::File> for File` and the PL front end establish, clause by
clause), none of the `i16` conversions of `serialize` fails, and `valid_lf` fits. -/
theorem serialize_total (f : FileShape) (h : ShapeOK f) : ∃ s, serializeSizes f = .ok s :=
  ⟨_, serializeSizes_eq f h⟩

/-- **What the serialiser writes is a consistent size table.** -/
theorem serialize_consistent (f : FileShape) (h : ShapeOK f) (s : Sizes)
    (hs : serializeSizes f = .ok s) : Consistent s := by
  rw [serializeSizes_eq f h] at hs
  simp only [SerOutcome.ok.injEq] at hs
  subst hs
  exact sizesOfShape_consistent f h

/-- **The reader accepts the layout of every serialised file**: the 24 bytes `serialize`
writes for a `ShapeOK` file, followed by the body it writes (any bytes, as many as the tables
hold), are accepted by the repaired reader, with exactly the layout the table describes and
without the junk warning. (`PL→TFM output is accepted by the TFM reader`, at the level of
sub-file sizes; the hypotheses of `ShapeOK` are checked on every real pltotf output by the
harness.) -/
theorem raw_accepts_serialized (f : FileShape) (h : ShapeOK f) (s : Sizes)
    (hs : serializeSizes f = .ok s) (body : List Nat) (hb : body.length = bodyBytes f) :
    rawDeserialize (headerBytes s ++ body) = .ok (layoutOf s) false := by
  have hc := serialize_consistent f h s hs
  rw [serializeSizes_eq f h] at hs
  simp only [SerOutcome.ok.injEq] at hs
  subst hs
  have hlf := sizesOfShape_lf f h
  have := layout_roundtrip (sizesOfShape f) hc body (by omega)
  rw [this]
  congr 1
  simp only [decide_eq_false_iff_not]
  omega

/-- The bound is attained: every table at its limit gives `lf = 32767` exactly … -/
example : serializeSizes ⟨238, some (0, 255), 256, 16, 16, 64, 31129, 258, 0, 256, 254⟩ =
    .ok ⟨32767, 256, 0, 255, 256, 16, 16, 64, 31387, 0, 256, 254⟩ := by decide
example : ShapeOK ⟨238, some (0, 255), 256, 16, 16, 64, 31129, 258, 0, 256, 254⟩ :=
  (shapeOKB_iff _).mp (by decide)
/-- … and one more lig/kern word (what the code allowed before `fixes/C10-m.patch`) overflows
`valid_lf`: the hypothesis `lig` of `ShapeOK` cannot be weakened. -/
example : serializeSizes ⟨238, some (0, 255), 256, 16, 16, 64, 31130, 258, 0, 256, 254⟩ =
    .panic .lfOverflow := by decide
/-- C10-m's witness: 16370 steps with 16370 distinct kerns. -/
example : serializeSizes ⟨0, some (97, 97), 2, 1, 1, 1, 16370, 0, 16370, 0, 0⟩ = .panic .lfOverflow := by decide

/-- **The reader accepts every serialised file, bodies included.** For a `ShapeOK` shape, the
size table `serialize` writes followed by a body of the size it writes is read by the *whole*
`File::deserialize` — front end and `from_raw_file` — into a file, without error, panic or
junk warning. -/
theorem reader_accepts_serialized (f : FileShape) (h : ShapeOK f) (s : Sizes)
    (hs : serializeSizes f = .ok s) (body : List Nat) (hb : body.length = bodyBytes f) :
    ∃ file, Body.readFile (headerBytes s ++ body) = .ok file false := by
  have hraw := raw_accepts_serialized f h s hs body hb
  obtain ⟨file, hf⟩ := body_total _ _ _ hraw
  refine ⟨file, ?_⟩
  unfold Body.readFile
  rw [hraw]
  simp only []
  rw [hf]

/-! ## The PL lexer / CST builder (`pl/cst.rs`) -/

/-- **Every iteration of `parse`'s main loop consumes at least one character** (a
parenthesis, a blank, or a non-empty run of junk; an opening parenthesis may take its key,
data or comment with it). This is why the fuel `length + 1` suffices. -/
theorem cst_step_consumes (alnum : Char → Bool) (st : Cst.State) (h : st.rest ≠ []) :
    (Cst.step alnum st).rest.length < st.rest.length :=
  Cst.step_decreases alnum st h

/-- **Totality of the CST builder.** For every text and every notion of "alphanumeric", the
model of `Cst::from_pl_source_code` returns a tree and warnings: the fuel is never exhausted
(there is no other failure in this code: no arithmetic that can overflow, no indexing). -/
theorem cst_total (alnum : Char → Bool) (text : List Char) :
    Cst.cstModel alnum text ≠ .outOfFuel := by
  unfold Cst.cstModel
  obtain ⟨st', h, _⟩ := Cst.loop_some alnum ((Cst.normalize text).length + 1)
    ⟨[], [], [], 0, Cst.normalize text⟩ (by simp)
  simp only [h]
  intro hc
  cases hc

/-- The main loop stops only at the end of the input: nothing is left unread. -/
theorem cst_reads_everything (alnum : Char → Bool) (l : List Char) :
    ∃ st, Cst.loop alnum (l.length + 1) ⟨[], [], [], 0, l⟩ = some st ∧ st.rest = [] :=
  Cst.loop_some alnum (l.length + 1) ⟨[], [], [], 0, l⟩ (by simp)

/-- **Round trip of the CST.** The canonical one-line rendering (`(` key blank data children
`)`, comments as `(COMMENT` text `)`) of any well-formed forest — keys made of key characters
and different from `COMMENT`, data without parentheses that does not begin with a blank,
comments with balanced parentheses that do not begin with a key character, no `\r`
(`Cst.WFAll`) — is read back by the model of `Cst::from_pl_source_code` **without any warning**
as a forest of the same shape: same keys, data, comment texts and nesting (`stripAll`
forgets the spans, which necessarily differ). Holds for every notion of "alphanumeric" for
which the letters of `COMMENT` are alphanumeric and blank and parentheses are not. Unbounded
in depth and width (mutual induction over the nested tree). -/
theorem cst_balanced_roundtrip (alnum : Char → Bool) (ha : Cst.AlnumOK alnum) (ns : List Cst.Node)
    (hwf : Cst.WFAll alnum ns) :
    ∃ ns', Cst.cstModel alnum (Cst.renderAll ns) = .ok ns' [] ∧ Cst.stripAll ns' = Cst.stripAll ns :=
  Cst.roundtrip alnum ha ns hwf

/-- Non-vacuity: ASCII `isAlphanum` qualifies, and a nested forest with a comment is well formed. -/
example : Cst.AlnumOK Char.isAlphanum := ⟨by decide, by decide, by decide, by decide⟩
example : Cst.WFAll Char.isAlphanum
    [.regular 0 ['A', '/'] ⟨0, 0⟩ ['x', ' ', 'y'] ⟨0, 0⟩
      [.comment [' ', '(', 'a', ')'], .regular 0 [] ⟨0, 0⟩ [] ⟨0, 0⟩ [] ⟨0, 0⟩] ⟨0, 0⟩] := by
  simp only [Cst.WFAll, Cst.WF, List.mem_cons, List.not_mem_nil, or_false, forall_eq_or_imp, forall_eq,
    and_true, false_imp_iff, implies_true]
  decide

/-! ## The number readers of `pl/ast.rs` -/

/-- **The `FixWord` reader never panics.** Every `checked_mul(..).unwrap()` /
`checked_add(..).unwrap()` and the unchecked `acc + 10` of `impl Parse for FixWord` succeed on
every input: the integer part is clamped at 2048 before it is multiplied, a fraction has at most
seven digits of `2^21·d`, and the "too big" test runs before `integer_part * 2^20` is formed.
(The `u32` and `u8` readers have no `unwrap` on arithmetic at all: overflow is the
`IntegerIsTooBig` / `SmallIntegerIsTooBig` branch, and their models are total functions.) -/
theorem number_total (i : Num.In) : Num.parseFix i ≠ .panic := by
  unfold Num.parseFix
  simp only []
  split
  · intro h; cases h
  · split
    · intro h; cases h
    · rename_i c t _ _
      generalize hs : Num.signs _ _ false = s
      obtain ⟨ip, k, hk, hip0, hip1⟩ := Num.intPart_ok s.2.rest s.2.pos 0 (by omega) (by omega)
      simp only [hk]
      obtain ⟨fp, m, hfr, hfp0, hfp1⟩ := Num.fracPart_ok k
      simp only [hfr]
      have hone : Num.fixOne = 1048576 := rfl
      by_cases hbig : ip ≥ 2048 ∨ (fp ≥ Num.fixOne ∧ ip = 2047)
      · rw [if_pos hbig]; intro h; cases h
      · rw [if_neg hbig]
        rw [hone] at hbig
        have hip : ip ≤ 2047 := by omega
        rw [Num.ck32_some (ip * Num.fixOne) (by rw [hone]; omega)]
        simp only []
        have hsum : ip * 1048576 + fp ≤ 2147483647 := by
          by_cases h47 : ip = 2047
          · have : ¬ fp ≥ 1048576 := fun hf => hbig (Or.inr ⟨hf, h47⟩)
            omega
          · omega
        rw [Num.ck32_some (ip * Num.fixOne + fp) (by rw [hone]; omega)]
        simp only []
        by_cases hneg : s.1 = true
        · rw [if_pos hneg, Num.ck32_some ((ip * Num.fixOne + fp) * -1) (by rw [hone]; omega)]
          intro h; cases h
        · rw [if_neg hneg]; intro h; cases h

/-! ## The index clamps of `validate_and_fix` -/

/-- **Clamps.** After the clamp every index addresses an element of its table, for all four
tables at once, whenever the tables are non-empty (which `rawDeserialize` guarantees:
`nw, nh, nd, ni ≥ 1`). -/
theorem clamp_total (nw nh nd ni : Nat) (c : Dims) (hw : 0 < nw) (hh : 0 < nh) (hd : 0 < nd) (hi : 0 < ni) :
    (clampDims nw nh nd ni c).w < nw ∧ (clampDims nw nh nd ni c).h < nh ∧
    (clampDims nw nh nd ni c).d < nd ∧ (clampDims nw nh nd ni c).i < ni := by
  simp only [clampDims, clampIdx]
  refine ⟨?_, ?_, ?_, ?_⟩ <;> split <;> omega

/-- An index that is already in range is left alone. -/
theorem clamp_id (nw nh nd ni : Nat) (c : Dims) (h : c.w < nw ∧ c.h < nh ∧ c.d < nd ∧ c.i < ni) :
    clampDims nw nh nd ni c = c := by
  obtain ⟨h1, h2, h3, h4⟩ := h
  simp [clampDims, clampIdx, Nat.not_le.mpr h1, Nat.not_le.mpr h2, Nat.not_le.mpr h3, Nat.not_le.mpr h4]

/-- A tag that survives the clamp points at something that exists: a lig/kern entry below
`nl`, an existing next-larger character, an extensible recipe below `ne`. -/
theorem clamp_tag_total (nl ne : Nat) (ex : Nat → Bool) (t t' : Tag) (h : clampTag nl ne ex t = some t') :
    t' = t ∧ TagOK nl ne ex t' := by
  cases t with
  | lig e =>
    simp only [clampTag] at h
    split at h
    · simp at h
    · simp at h; subst h; exact ⟨rfl, by simp only [TagOK]; omega⟩
  | list n =>
    simp only [clampTag] at h
    split at h
    · rename_i hx; simp at h; subst h; exact ⟨rfl, hx⟩
    · simp at h
  | ext r =>
    simp only [clampTag] at h
    split at h
    · simp at h
    · simp at h; subst h; exact ⟨rfl, by simp only [TagOK]; omega⟩

/-- The lig-tag clamp is exact and safe: a tag survives exactly when `unpackEntry` returns an
entry point, and that entry point addresses an instruction of the program (so every later
walk `instructions_for_entrypoint(e)` starts inside the table). -/
theorem clamp_lig_exact (nl e : Nat) (redirect : Option Nat) (u : Nat)
    (h : unpackEntry nl e redirect = some u) : u < nl ∧ e < nl := by
  unfold unpackEntry at h
  split at h
  · simp at h
  · rename_i he
    cases redirect with
    | none => simp at h; omega
    | some t =>
      simp only [] at h
      split at h
      · simp at h; omega
      · simp at h

/-- A surviving extensible piece is an existing character. -/
theorem clamp_piece_total (ex : Nat → Bool) (p : Option Nat) (c : Nat) (h : clampPiece ex p = some c) :
    ex c = true := by
  cases p with
  | none => simp [clampPiece] at h
  | some d =>
    simp only [clampPiece] at h
    split at h
    · rename_i hx; simp at h; subst h; exact hx
    · simp at h

example : clampDims 3 2 2 1 ⟨7, 1, 9, 0⟩ = ⟨0, 1, 0, 0⟩ := by decide

/-! ## The code before the repairs violates totality (witnesses of C10-a and C10-b) -/

/-- C10-a: a 16-byte file whose first word says `lf = 4` reaches `b.get(0..24).expect(..)`. -/
example : rawDeserializePre ([0, 4] ++ List.replicate 14 0) = .panic .get24 := by decide

/-- C10-b: `lf = 255`, `nw = 32767` (any file of at least 1020 bytes): the sixteen-bit sum in
`valid_lf` overflows. The same holds for the 131 068-byte witness with `lf = 32767`. -/
example : rawCore true [0, 255, 0, 2, 0, 1, 0, 0, 127, 255, 0, 1, 0, 1, 0, 1, 0, 0, 0, 0, 0, 0, 0, 0] 1020
    = .panic .arith := by decide
example : rawCore true [127, 255, 0, 2, 0, 1, 0, 0, 127, 255, 0, 1, 0, 1, 0, 1, 0, 0, 0, 0, 0, 0, 0, 0] 131068
    = .panic .arith := by decide

/-- …and the repaired code returns the documented errors there. -/
example : rawDeserialize ([0, 4] ++ List.replicate 14 0) = .err (.lfTooSmall 4 16) false := by decide
example : rawCore false [127, 255, 0, 2, 0, 1, 0, 0, 127, 255, 0, 1, 0, 1, 0, 1, 0, 0, 0, 0, 0, 0, 0, 0] 131068
    = .err (.inconsistentSubFileSizes ⟨32767, 2, 1, 0, 32767, 1, 1, 1, 0, 0, 0, 0⟩) false := by decide

end C10
