import TexcraftModel.Lemmas.C01Items

/-!
# C01 — group scoping: property theorems

`M` = `C01.run Variant.fixed` on `C01.VMState` (`Model/C01.lean`: the save stack of variables, the
two scoped command maps, the font stack and the pending-`\global` flag, transcribed from the Rust
code as it is after the repairs `fixes/C01-{a,b,c}.patch`);
`S` = `C01.Spec.run` (TeX's semantics: a stack of full environments; a global assignment writes
every level; the scope of an assignment is a function of its own prefix and the current
`\globaldefs` only). Helper lemmas: `Lemmas/C01.lean`, `Lemmas/C01Cor.lean`.

* `vm_refines_run_partial`, `vm_refines_run_full_statement(_false)` — against TeX's own semantics
  (`Spec.runTeX`) the refinement holds for every program that never executes a `\let` from an
  undefined name and fails at the witness of the known finding C01-d.
* `vm_refines_run` — every finite program (any depth, any interleaving of local and global
  assignments to any targets, reads anywhere, a stray `}` included): `M` and `S` produce the same
  outputs. `vm_simulation` is the state-level form, `vm_total` says that no `unwrap` of
  `VM::end_group` fails and no `\global` is rejected.
* `close_restores`, `close_restores_plain`, `global_survives` (+ `assigned_value`, `selected_font`),
  `global_one_shot` —
  the property in its own words.
* `prefix_a/b/c_violates` — the transcription of the code *before* each repair violates the
  refinement at the recorded witness (findings C01-a, C01-b, C01-c).
-/
namespace C01.Thm
open C01 C20

/-- **Refinement.** For every program, the reads (and the fatal error, if any) of the VM model are
those of the stack-of-environments semantics `Spec.run` — TeX's semantics with the single recorded
deviation C01-d built in (`\let` from an undefined name does nothing); see `vm_refines_run_partial`
for TeX's own semantics. -/
theorem vm_refines_run (hist : List Op) :
    (run .fixed VMState.init hist).2 = (Spec.init.run hist).2 :=
  C01.outs_eq hist

/-- The property's refinement in full: against TeX's own semantics (`Spec.runTeX`, where a `\let`
from an undefined name makes the target undefined). It is **false** (known finding C01-d). -/
def vm_refines_run_full_statement : Prop :=
  ∀ hist : List Op, (run .fixed VMState.init hist).2 = (Spec.init.runTeX hist).2

/-- What holds of it: every program that never executes a `\let` from an undefined name
(`Spec.noUndefLet`, decidable, computed along the run) produces TeX's outputs. Together with
`vm_refines_run` this isolates the defect: the code differs from TeX in that one assignment's
*value* (it keeps the old meaning), never in how assignments are scoped. -/
theorem vm_refines_run_partial (hist : List Op) (h : Spec.noUndefLet Spec.init hist = true) :
    (run .fixed VMState.init hist).2 = (Spec.init.runTeX hist).2 :=
  C01.outs_eq_tex hist h

/-- C01-d at its witness `\def\ta{m1}\let\ta=\tb \ta` (`\tb` undefined): the code still expands `\ta`
to `m1`, in TeX `\ta` is undefined. -/
theorem vm_refines_run_full_statement_false : ¬ vm_refines_run_full_statement := by
  intro h
  exact absurd (h [.define 0 (.cs 0) (.mac 1), .define 0 (.cs 0) (.lcs (.cs 1)), .read (.cmd (.cs 0))])
    (by decide)

-- non-vacuity of the hypothesis of `vm_refines_run_partial`: a program with `\let`s from defined names
example : Spec.noUndefLet Spec.init
    [.define 0 (.cs 1) (.mac 1), .beginGroup, .define 1 (.cs 0) (.lcs (.cs 1)), .define 0 (.act 0) (.lcs (.cs 0)),
     .endGroup, .read (.cmd (.cs 0)), .read (.cmd (.act 0))] = true := by decide
-- … and the same with the source undefined violates it
example : Spec.noUndefLet Spec.init [.beginGroup, .define 1 (.cs 0) (.lcs (.cs 1))] = false := by decide

/-- State-level form: after every program the VM state is related to the specification's state by
the simulation relation `R` (the flag is `Local`, C20's invariant holds for the three scoped
containers, and every level of every stack abstracts to the corresponding saved environment). -/
theorem vm_simulation (hist : List Op) : R (run .fixed VMState.init hist).1 (Spec.init.run hist).1 :=
  C01.R_reachable hist

/-- The two `unwrap`s of `VM::end_group` never fail (the three stacks stay in step), and no
prefixed command is rejected. -/
theorem vm_total (hist : List Op) :
    ∀ o ∈ (run .fixed VMState.init hist).2, o ≠ .panic ∧ o ≠ .errPrefix := by
  rw [C01.outs_eq]; exact Spec.run_outs_ok _ _

/-- **When a group closes, everything that was not assigned globally inside has exactly the value
it had when the group opened.** `hist` is any program that ran to its end, `blk` any well-bracketed
program (nested groups, local and global assignments, reads), `t` any target — variable, control
sequence, active character, current font — that no operation of `blk` assigned with global scope
(`Spec.globals`: by its own `\global` prefix and the `\globaldefs` in force at that moment, or
`\gdef`). Then `{ blk }` runs to its end and leaves `t` as it was before the `{`. -/
theorem close_restores (hist blk : List Op) (t : Target)
    (hnf : ∀ o ∈ (run .fixed VMState.init hist).2, o.fatal = false)
    (hb : Bal blk)
    (ht : t ∉ Spec.globals ((Spec.init.run hist).1.step .beginGroup).1 blk) :
    (∀ o ∈ (run .fixed VMState.init (hist ++ .beginGroup :: (blk ++ [.endGroup]))).2, o.fatal = false) ∧
    valOf (run .fixed VMState.init (hist ++ .beginGroup :: (blk ++ [.endGroup]))).1 t =
      valOf (run .fixed VMState.init hist).1 t :=
  C01.close_restores_M hist blk t hnf hb ht

/-- The same with purely syntactic hypotheses: if `\globaldefs` is never assigned and `blk` is
well bracketed and written without `\global` and `\gdef`, then **every** target — whatever was
assigned inside, at whatever depth — has after `{ blk }` the value it had before. -/
theorem close_restores_plain (hist blk : List Op) (t : Target)
    (hnf : ∀ o ∈ (run .fixed VMState.init hist).2, o.fatal = false)
    (hh : ∀ op ∈ hist, op.noGlobaldefs = true)
    (hb : Bal blk) (hp : ∀ op ∈ blk, op.plain = true) :
    valOf (run .fixed VMState.init (hist ++ .beginGroup :: (blk ++ [.endGroup]))).1 t =
      valOf (run .fixed VMState.init hist).1 t :=
  C01.close_restores_plain_M hist blk t hnf hh hb hp

/-- **A global assignment survives however many groups were open.** If `op` assigns `t` globally
after `hist` (at any depth), then closing any number `k` of the open groups succeeds and `t` still
has the value it had right after `op`. -/
theorem global_survives (hist : List Op) (op : Op) (t : Target) (k : Nat)
    (hnf : ∀ o ∈ (run .fixed VMState.init hist).2, o.fatal = false)
    (hg : Spec.globalTarget (Spec.init.run hist).1 op = some t)
    (hk : k ≤ (run .fixed VMState.init (hist ++ [op])).1.save.length) :
    (∀ o ∈ (run .fixed VMState.init (hist ++ op :: List.replicate k .endGroup)).2, o.fatal = false) ∧
    valOf (run .fixed VMState.init (hist ++ op :: List.replicate k .endGroup)).1 t =
      valOf (run .fixed VMState.init (hist ++ [op])).1 t :=
  C01.global_survives_M hist op t k hnf hg hk

/-- … and that value is the assigned one (variables). -/
theorem assigned_value (hist : List Op) (pre : Nat) (v : Var) (x : Val)
    (hnf : ∀ o ∈ (run .fixed VMState.init hist).2, o.fatal = false) :
    valOf (run .fixed VMState.init (hist ++ [.assign pre v x])).1 (.var v) = .v (some x) :=
  C01.assign_value_M hist pre v x hnf

/-- … (the current font). -/
theorem selected_font (hist : List Op) (pre f : Nat)
    (hnf : ∀ o ∈ (run .fixed VMState.init hist).2, o.fatal = false) :
    valOf (run .fixed VMState.init (hist ++ [.selectFont pre f])).1 .font = .f f :=
  C01.font_value_M hist pre f hnf

/-- **`\global` / `\globaldefs` change the scope of exactly the one assignment they prefix.**
After every program the pending flag is `Local` (nothing leaks into a later assignment); and from
any reachable state, `pre` `\global`s followed by the scope hook of the prefixed command yield
TeX's scope for this assignment (`\globaldefs` < 0: local, > 0: global, = 0: global iff prefixed)
and hand back the same state, flag `Local` again. (That the scope of each assignment depends on
nothing else is `vm_refines_run`: the specification has no flag.) -/
theorem global_one_shot (hist : List Op) (pre : Nat) :
    (run .fixed VMState.init hist).1.scopeBit = .loc ∧
    readAndResetGlobal (applyPrefix pre (run .fixed VMState.init hist).1) =
      (Spec.effScope (globalDefs (run .fixed VMState.init hist).1) pre, (run .fixed VMState.init hist).1) :=
  ⟨(C01.R_reachable hist).bit, hook_eq _ pre (C01.R_reachable hist).bit⟩

/-! ## Non-vacuity -/

-- a program with nested groups, local-then-global and global-then-local on one target, an alias,
-- an active character, a font, `\globaldefs`: outputs of M (= S by the theorem), evaluated
example :
    (run .fixed VMState.init
      [.assign 0 ⟨.count, 1⟩ 1, .beginGroup, .beginGroup, .assign 0 ⟨.count, 1⟩ 2, .assign 1 ⟨.count, 1⟩ 3,
       .assign 0 ⟨.count, 1⟩ 4, .define 0 (.act 0) (.mac 7), .selectFont 1 2, .read (.var ⟨.count, 1⟩),
       .endGroup, .read (.var ⟨.count, 1⟩), .read (.cmd (.act 0)), .endGroup, .read .font,
       .read (.var ⟨.count, 1⟩), .endGroup]).2
    = [.unit, .unit, .unit, .unit, .unit, .unit, .unit, .unit, .val (some 4), .unit, .val (some 3),
       .cmd none none, .unit, .fnt 2, .val (some 3), .errNoGroup] := by decide

-- hypotheses of `close_restores` on a concrete instance (a nested group with a global assignment
-- to another target inside), and its conclusion evaluated
example : ∀ o ∈ (run .fixed VMState.init [.assign 0 ⟨.count, 1⟩ 1]).2, o.fatal = false := by decide
example : Bal [.assign 0 ⟨.count, 1⟩ 2, .beginGroup, .assign 1 ⟨.count, 2⟩ 3, .endGroup] :=
  .assign _ _ _ (.group (a := [.assign 1 ⟨.count, 2⟩ 3]) (b := []) (.assign _ _ _ .nil) .nil)
example : Target.var ⟨.count, 1⟩ ∉
    Spec.globals ((Spec.init.run [.assign 0 ⟨.count, 1⟩ 1]).1.step .beginGroup).1
      [.assign 0 ⟨.count, 1⟩ 2, .beginGroup, .assign 1 ⟨.count, 2⟩ 3, .endGroup] := by decide
example :
    valOf (run .fixed VMState.init ([.assign 0 ⟨.count, 1⟩ 1] ++ .beginGroup ::
      ([.assign 0 ⟨.count, 1⟩ 2, .beginGroup, .assign 1 ⟨.count, 2⟩ 3, .endGroup] ++ [.endGroup]))).1
      (.var ⟨.count, 1⟩) = .v (some 1) := by decide

-- hypotheses of `close_restores_plain`
example : ∀ op ∈ [Op.assign 0 ⟨.count, 1⟩ 1, .define 1 (.act 0) (.mac 3)], op.noGlobaldefs = true := by decide
example : ∀ op ∈ [Op.assign 0 ⟨.count, 1⟩ 2, .beginGroup, .define 0 (.act 0) (.chr 65), .selectFont 0 2,
    .endGroup, .read .font], op.plain = true := by decide

-- hypotheses of `global_survives` (and `assigned_value`): `\global\count1=3` at depth 2 after a
-- local assignment, k = 2
example : ∀ o ∈ (run .fixed VMState.init [.beginGroup, .beginGroup, .assign 0 ⟨.count, 1⟩ 2]).2,
    o.fatal = false := by decide
example : Spec.globalTarget
    (Spec.init.run [.beginGroup, .beginGroup, .assign 0 ⟨.count, 1⟩ 2]).1 (.assign 1 ⟨.count, 1⟩ 3)
    = some (.var ⟨.count, 1⟩) := by decide
example : 2 ≤ (run .fixed VMState.init
    ([.beginGroup, .beginGroup, .assign 0 ⟨.count, 1⟩ 2] ++ [.assign 1 ⟨.count, 1⟩ 3])).1.save.length := by
  decide
-- `\globaldefs=1` makes an unprefixed assignment global, `\globaldefs=-1` makes a prefixed one local
example : Spec.effScope 1 0 = .glob ∧ Spec.effScope (-1) 1 = .loc ∧ Spec.effScope 0 1 = .glob ∧
    Spec.effScope 0 0 = .loc := by decide

/-! ## The code before the repairs violates the refinement (findings C01-a, C01-b, C01-c) -/

/-- C01-a: `{{\count1=2 \global\count1=3}\the\count1` — the pre-fix `Global` loop only purges the
outermost group: the model prints the initial value, the specification 3. -/
theorem prefix_a_violates :
    (run ⟨false, true, true⟩ VMState.init
      [.beginGroup, .beginGroup, .assign 0 ⟨.count, 1⟩ 2, .assign 1 ⟨.count, 1⟩ 3, .endGroup,
       .read (.var ⟨.count, 1⟩)]).2 ≠
    (Spec.init.run
      [.beginGroup, .beginGroup, .assign 0 ⟨.count, 1⟩ 2, .assign 1 ⟨.count, 1⟩ 3, .endGroup,
       .read (.var ⟨.count, 1⟩)]).2 := by decide

/-- C01-b: `\def~{A}{\def~{B}~}~` — without grouping `active_char` the inner definition leaks. -/
theorem prefix_b_violates :
    (run ⟨true, false, true⟩ VMState.init
      [.define 0 (.act 0) (.mac 1), .beginGroup, .define 0 (.act 0) (.mac 2), .read (.cmd (.act 0)),
       .endGroup, .read (.cmd (.act 0))]).2 ≠
    (Spec.init.run
      [.define 0 (.act 0) (.mac 1), .beginGroup, .define 0 (.act 0) (.mac 2), .read (.cmd (.act 0)),
       .endGroup, .read (.cmd (.act 0))]).2 := by decide

/-- C01-c: `{\global\chardef\x=65 }\x` — rejected ("cannot be prefixed by \global"). -/
theorem prefix_c_violates :
    (run ⟨true, true, false⟩ VMState.init
      [.beginGroup, .define 1 (.cs 0) (.chr 65), .endGroup, .read (.cmd (.cs 0))]).2 ≠
    (Spec.init.run
      [.beginGroup, .define 1 (.cs 0) (.chr 65), .endGroup, .read (.cmd (.cs 0))]).2 := by decide

/-! ## The input side: which tokens open and close groups is itself scoped state

`Item`s (`Model/C01.lean`) are surface programs: besides the ops, a character typed in the source
(`chr c`: begins a group iff its *current* `\catcode` is 1, ends one iff it is 2, is typeset
otherwise), a name used as a command (`exec t`: a `\let`-alias of a character token acts as that
token with the category code stored by the `\let`; an alias of a font selector selects the font)
and `\let t=<character>` (`letChr`). `elabItem` is the modelled dispatch of the main loop / lexer
(vm/mod.rs:163-240, `codes::cat_code`); the harness runs the same items on the real VM. -/

/-- **Refinement for surface programs.** The group structure is not given in advance but decided
item by item from scoped category codes and scoped `\let` meanings; model and specification still
produce the same outputs, for every item list. -/
theorem vm_refines_items (its : List Item) :
    (runItems .fixed VMState.init its).2 = (Spec.init.runItems its).2 :=
  C01.items_outs_eq its

/-- … and TeX's own outputs when no item turns out to be a `\let` from an undefined name (C01-d). -/
theorem vm_refines_items_partial (its : List Item) (h : Spec.noUndefLetItems Spec.init its = true) :
    (runItems .fixed VMState.init its).2 = (Spec.init.runItemsTeX its).2 := by
  rw [Spec.runItemsTeX_eq _ _ h]; exact C01.items_outs_eq its

/-- The op programs of the theorems above are the sublanguage of items that are ops. -/
theorem items_extend_ops (cfg : Variant) (m : VMState) (ops : List Op) :
    runItems cfg m (ops.map Item.op) = run cfg m ops :=
  C01.runItems_ops cfg m ops

/-- **What a character or a name does is restored with the group.** After `hist { blk }` (`blk`
well bracketed, no `\global`/`\gdef`, `\globaldefs` never assigned) every item is dispatched exactly
as before the `{`: a character that `blk` turned into a group delimiter by `\catcode` is none any
more, a name that `blk` `\let` to a brace has its old meaning. -/
theorem item_reading_restored (hist blk : List Op) (it : Item)
    (hnf : ∀ o ∈ (run .fixed VMState.init hist).2, o.fatal = false)
    (hh : ∀ op ∈ hist, op.noGlobaldefs = true)
    (hb : Bal blk) (hp : ∀ op ∈ blk, op.plain = true) :
    elabItem (catOf (run .fixed VMState.init (hist ++ .beginGroup :: (blk ++ [.endGroup]))).1)
        (getCmd (run .fixed VMState.init (hist ++ .beginGroup :: (blk ++ [.endGroup]))).1) it =
      elabItem (catOf (run .fixed VMState.init hist).1) (getCmd (run .fixed VMState.init hist).1) it :=
  C01.item_reading_restored_M hist blk it hnf hh hb hp

-- non-vacuity: `\catcode`\[=1` inside a group makes `[` open a group there and not after it;
-- `\let\ta=[` keeps the category code it saw; `]` (category 12) is typeset; a stray `}` is fatal.
-- (91 = `[`, 93 = `]`; outputs of the model, = the specification's by the theorem.)
example :
    (runItems .fixed VMState.init
      [.op (.assign 0 ⟨.count, 1⟩ 1), .chr 123, .op (.assign 0 ⟨.catcode, 91⟩ 1), .chr 91,
       .op (.assign 0 ⟨.count, 1⟩ 2), .letChr 1 (.cs 0) 91, .chr 125, .op (.read (.var ⟨.count, 1⟩)),
       .chr 125, .chr 91, .exec (.cs 0), .op (.assign 0 ⟨.count, 1⟩ 3), .chr 93, .chr 125,
       .op (.read (.var ⟨.count, 1⟩)), .chr 125]).2
    = [.unit, .unit, .unit, .unit, .unit, .unit, .unit, .val (some 1), .unit,
       .cmd (some (.tok (tokCode 91 12))) none, .unit, .unit, .cmd (some (.tok (tokCode 93 12))) none,
       .unit, .val (some 1), .errNoGroup] := by decide
example : Spec.noUndefLetItems Spec.init
    [.chr 123, .letChr 1 (.cs 0) 125, .exec (.cs 0), .op (.define 0 (.cs 1) (.lcs (.cs 0)))] = true := by
  decide
-- (with a *local* `\let\ta=}` the `\ta` that closes the group also undoes its own definition, and
-- the following `\let\tb=\ta` is a `\let` from an undefined name)
example : Spec.noUndefLetItems Spec.init
    [.chr 123, .letChr 0 (.cs 0) 125, .exec (.cs 0), .op (.define 0 (.cs 1) (.lcs (.cs 0)))] = false := by
  decide

/-! ## Why two mutants of the sweep are equivalent (mutants/C01: 15, 29) -/

/-- Mutant 15 — `VM::begin_group` pushes `Some(current_font)` instead of `None`: every program
produces the same outputs (the fonts the open groups will restore are the same list). -/
theorem eager_font_save_equivalent (hist : List Op) :
    (runEager VMState.init hist).2 = (run .fixed VMState.init hist).2 :=
  C01.runEager_eq hist

/-- Mutant 29 — a definition primitive reads the pending flag after its arguments instead of
before: the same state results, from every state (nothing it resolves depends on the flag and the
hook changes nothing but the flag). -/
theorem late_scope_hook_equivalent (cfg : Variant) (m : VMState) (pre : Nat) (t : CTarget) (d : Def) :
    defineLate cfg m pre t d = define cfg m pre t d :=
  C01.defineLate_eq cfg m pre t d

end C01.Thm
