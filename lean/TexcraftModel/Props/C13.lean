import TexcraftModel.Lemmas.C13Main

/-!
# C13 — hyphenation positions are exactly Liang's; exceptions always win; case-insensitive

Only the statements that *are* the property live here (helpers: `Lemmas/C13.lean`,
`Lemmas/C13Main.lean`). The model (`Model/C13.lean`) describes `crates/hyphenate/src/lib.rs`
with `fixes/C13-a.patch` applied; `exceptions_win` is false for the unpatched code (finding
C13-a, see `notes/C13.md`).

* `ops_roundtrip`, `ops_terminated`, `ops_fit`   the packed op stream of a pattern
* `trie_lookup`, `trie_prefix_closed`            the trie as a prefix map
* `index_bounds`                                 `scores[p.offset + k]` is always in range
* `scores_eq_liang`                              aggregate scores = Liang's definition
* `exceptions_win`                               a listed exception is returned verbatim
* `hyphenation_spec`                             the property itself
* `case_insensitive`                             only the lower-cased letters matter
-/
namespace C13

/-! ## The op stream -/

/-- Decoding the bytes `load_patterns` pushes for a well-formed pattern gives back the
pattern's digits, one per inter-letter position (the stream omits trailing zeros). Holds for
any zero runs (the `15·16` overflow byte) and any length (patterns longer than 16 letters). -/
theorem ops_roundtrip (p : List Char) (hwf : wellFormed p = true) :
    ∃ k, decodeOps (patOps p).1 ++ List.replicate k 0 = (parsePat p).digits := by
  simp only [wellFormed, Bool.and_eq_true] at hwf
  obtain ⟨k, hk⟩ := scan_sem p [] (path0 p) (.afterChar 0) (termOf p) (termOf_cases p)
    scoreBytes_nil hwf.1 (by intro h; cases h)
  refine ⟨k, ?_⟩
  have h1 : (patOps p).1 = finish (scan p [] (path0 p) (.afterChar 0)) (termOf p) := rfl
  rw [h1, hk]
  simp [decodeOps, expected, parsePat, bodyOf]

/-- Every pattern's stream (well-formed or not) stops at its own terminator: what follows
it in `Hyphenator.data` is never read. -/
theorem ops_terminated (p : List Char) (rest : List Nat) :
    decodeOps ((patOps p).1 ++ rest) = decodeOps (patOps p).1 :=
  patItem_term p rest

/-- Every pattern's stream (well-formed or not) emits at most one score per inter-letter
position, and only digits 0..9. -/
theorem ops_fit (p : List Char) :
    (decodeOps (patOps p).1).length ≤ (parsePat p).letters.length + 1 ∧
    ∀ d ∈ decodeOps (patOps p).1, d ≤ 9 := by
  rw [parsePat_letters]
  exact ⟨patItem_length p, patItem_digits_le p⟩

/-- The trie path of a pattern is its anchors and letters. -/
theorem pattern_path (p : List Char) : (patOps p).2 = (parsePat p).key := patItem_key' p

/-! ## The trie -/

/-- After `build`, the value stored at a vertex is the offset of the stream of the *last*
inserted pattern/exception with that path, and every inserted non-empty path has a value. -/
theorem trie_lookup (ps es : List (List Char)) :
    (∀ π o, lookup (build ps es).trie π = some o →
      o ≤ (build ps es).data.length ∧ π ≠ [] ∧
        ∃ it rest, newest (itemsOf ps es) π = some it ∧
          (build ps es).data.drop o = it.ops ++ rest) ∧
    (∀ π, π ≠ [] → newest (itemsOf ps es) π ≠ none → lookup (build ps es).trie π ≠ none) :=
  inv_build ps es

/-- Stopping the walk when `next_or` fails loses nothing: below a vertex that no inserted path
runs through there are no values. -/
theorem trie_prefix_closed (t : List (List Edge × Nat)) (π π' : List Edge)
    (h : hasPrefix t π = false) (hp : π <+: π') : lookup t π' = none :=
  lookup_none_of_not_hasPrefix t π π' h hp

/-! ## No panic -/

/-- `scores[p.offset + k]` is in range for every pattern set (well-formed or not), every
exception list and every word (letters or not, any byte length): the model never takes
its `none` (= Rust panic) branch, and returns one score per character. -/
theorem index_bounds (ps es : List (List Char)) (lc : Char → Option Char) (w : List Char) :
    ∃ s, aggregateScores (build ps es) lc w = some s ∧ s.length = w.length :=
  aggregate_some _ (bounded_build ps es) lc w

/-! ## Liang's definition -/

/-- For every set of well-formed patterns with pairwise different letters+anchors, every
exception list and every word of letters that is not a listed exception: the aggregate
scores are Liang's (maximum digit over all (pattern, offset) matches; 0 before the first
letter), computed on the lower-cased word. -/
theorem scores_eq_liang (ps es : List (List Char)) (lc : Char → Option Char) (w lw : List Char)
    (hwf : ∀ p ∈ ps, wellFormed p = true)
    (hnd : ((ps.map parsePat).map Pat.key).Nodup)
    (hl : lowerWord lc w = some lw)
    (hex : findException es lw = none) :
    aggregateScores (build ps es) lc w = some (liangScores (ps.map parsePat) lw) :=
  scores_eq_liang_aux ps es lc w lw hl hwf hnd hex

/-- A word in the exception list is hyphenated exactly as listed — whatever the patterns
(no hypothesis on them at all: any digits 0..9, malformed, duplicated). -/
theorem exceptions_win (ps es : List (List Char)) (lc : Char → Option Char) (w lw e : List Char)
    (hl : lowerWord lc w = some lw)
    (hex : findException es lw = some e) :
    calculateIndices (build ps es) lc w = some (listed e) := by
  unfold calculateIndices
  rw [exception_scores ps es lc w lw e hl hex]
  simp only [Option.map_some, listed]
  rw [oddIdx_listed]

/-- The property: the permitted hyphen positions are those of the specification. -/
theorem hyphenation_spec (ps es : List (List Char)) (lc : Char → Option Char) (w lw : List Char)
    (hwf : ∀ p ∈ ps, wellFormed p = true)
    (hnd : ((ps.map parsePat).map Pat.key).Nodup)
    (hl : lowerWord lc w = some lw) :
    calculateIndices (build ps es) lc w = some (specIndices ps es lw) := by
  unfold specIndices
  cases hex : findException es lw with
  | some e => exact exceptions_win ps es lc w lw e hl hex
  | none =>
    unfold calculateIndices
    rw [scores_eq_liang ps es lc w lw hwf hnd hl hex]
    rfl

/-- Two words with the same lower-cased letters (e.g. differing only in case) get the same
hyphen positions. -/
theorem case_insensitive (ps es : List (List Char)) (lc : Char → Option Char) (w w' lw : List Char)
    (hwf : ∀ p ∈ ps, wellFormed p = true)
    (hnd : ((ps.map parsePat).map Pat.key).Nodup)
    (hl : lowerWord lc w = some lw) (hl' : lowerWord lc w' = some lw) :
    calculateIndices (build ps es) lc w = calculateIndices (build ps es) lc w' := by
  rw [hyphenation_spec ps es lc w lw hwf hnd hl, hyphenation_spec ps es lc w' lw hwf hnd hl']

/-! ## Non-vacuity: concrete instances meeting the hypotheses -/

def exPats : List (List Char) :=
  [['a', '1', 'b'], ['.', 'b', '2', 'c', '.'], ['9', 'b', 'c'], ['a', 'b', '8', 'c']]
def exExcs : List (List Char) := [['a', 'b', '-', 'c']]

example : (∀ p ∈ exPats, wellFormed p = true) := by decide
example : ((exPats.map parsePat).map Pat.key).Nodup := by decide
example : lowerWord asciiLc ['A', 'b', 'C'] = some ['a', 'b', 'c'] := by decide
example : lowerWord asciiLc ['a', 'B'] = some ['a', 'b'] := by decide
example : findException exExcs ['a', 'b', 'c'] = some ['a', 'b', '-', 'c'] := by decide
example : findException exExcs ['a', 'b'] = none := by decide
/-- Patterns alone would give `a-bc` (9 before `b`, 8 before `c`); the exception `ab-c` wins. -/
example : calculateIndices (build exPats exExcs) asciiLc ['A', 'b', 'C'] = some [2] := by decide
example : calculateIndices (build exPats []) asciiLc ['A', 'b', 'C'] = some [1] := by decide
example : specIndices exPats exExcs ['a', 'b', 'c'] = [2] := by decide
example : calculateIndices (build exPats exExcs) asciiLc ['a', 'B'] = some [1] := by decide
/-- A zero run of 17 (one overflow byte) decodes to its digits. -/
example : decodeOps (patOps ("aaaaaaaaaaaaaaaaa3b".toList)).1
    = [0,0,0,0,0,0,0,0,0,0,0,0,0,0,0,0,0,3] := by decide

end C13
