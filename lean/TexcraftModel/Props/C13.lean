import TexcraftModel.Lemmas.C13Main
import TexcraftModel.Lemmas.C13Trie
import TexcraftModel.Lemmas.C13Equiv
import TexcraftModel.Lemmas.C13Plain
import TexcraftModel.Lemmas.C13Text
import TexcraftModel.Lemmas.C13Hist

/-!
# C13 — hyphenation positions are exactly Liang's; exceptions always win; case-insensitive

Only the statements that *are* the property live here (helpers: `Lemmas/C13.lean`,
`Lemmas/C13Main.lean`). The model (`Model/C13.lean`) describes `crates/hyphenate/src/lib.rs`
with `fixes/C13-a.patch` applied; `exceptions_win` is false for the unpatched code (finding
C13-a, see `notes/C13.md`).

* `ops_roundtrip`, `ops_terminated`, `ops_fit`   the packed op stream of a pattern
* `trie_lookup`, `trie_prefix_closed`            the trie as a prefix map
* `index_bounds`                                 `scores[p.offset + k]` is always in range
* `scores_eq_liang`                              aggregate scores = Liang's definition
* `exceptions_win`                               a listed exception is returned verbatim
* `hyphenation_spec`                             the property itself
* `case_insensitive`                             only the lower-cased letters matter
-/
namespace C13

/-! ## The op stream -/

/-- Decoding the bytes `load_patterns` pushes for a well-formed pattern gives back the
pattern's digits, one per inter-letter position (the stream omits trailing zeros). Holds for
any zero runs (the `15·16` overflow byte) and any length (patterns longer than 16 letters). -/
theorem ops_roundtrip (p : List Char) (hwf : wellFormed p = true) :
    ∃ k, decodeOps (patOps p).1 ++ List.replicate k 0 = (parsePat p).digits := by
  simp only [wellFormed, Bool.and_eq_true] at hwf
  obtain ⟨k, hk⟩ := scan_sem p [] (path0 p) (.afterChar 0) (termOf p) (termOf_cases p)
    scoreBytes_nil hwf.1 (by intro h; cases h)
  refine ⟨k, ?_⟩
  have h1 : (patOps p).1 = finish (scan p [] (path0 p) (.afterChar 0)) (termOf p) := rfl
  rw [h1, hk]
  simp [decodeOps, expected, parsePat, bodyOf]

/-- Every pattern's stream (well-formed or not) stops at its own terminator: what follows
it in `Hyphenator.data` is never read. -/
theorem ops_terminated (p : List Char) (rest : List Nat) :
    decodeOps ((patOps p).1 ++ rest) = decodeOps (patOps p).1 :=
  patItem_term p rest

/-- Every pattern's stream (well-formed or not) emits at most one score per inter-letter
position, and only digits 0..9. -/
theorem ops_fit (p : List Char) :
    (decodeOps (patOps p).1).length ≤ (parsePat p).letters.length + 1 ∧
    ∀ d ∈ decodeOps (patOps p).1, d ≤ 9 := by
  rw [parsePat_letters]
  exact ⟨patItem_length p, patItem_digits_le p⟩

/-- The trie path of a pattern is its anchors and letters. -/
theorem pattern_path (p : List Char) : (patOps p).2 = (parsePat p).key := patItem_key' p

/-! ## The trie -/

/-- After `build`, the value stored at a vertex is the offset of the stream of the *last*
inserted pattern/exception with that path, and every inserted non-empty path has a value. -/
theorem trie_lookup (ps es : List (List Char)) :
    (∀ π o, lookup (build ps es).trie π = some o →
      o ≤ (build ps es).data.length ∧ π ≠ [] ∧
        ∃ it rest, newest (itemsOf ps es) π = some it ∧
          (build ps es).data.drop o = it.ops ++ rest) ∧
    (∀ π, π ≠ [] → newest (itemsOf ps es) π ≠ none → lookup (build ps es).trie π ≠ none) :=
  inv_build ps es

/-- Stopping the walk when `next_or` fails loses nothing: below a vertex that no inserted path
runs through there are no values. -/
theorem trie_prefix_closed (t : List (List Edge × Nat)) (π π' : List Edge)
    (h : hasPrefix t π = false) (hp : π <+: π') : lookup t π' = none :=
  lookup_none_of_not_hasPrefix t π π' h hp

/-! ## No panic -/

/-- `scores[p.offset + k]` is in range for every pattern set (well-formed or not), every
exception list and every word (letters or not, any byte length): the model never takes
its `none` (= Rust panic) branch, and returns one score per character. -/
theorem index_bounds (ps es : List (List Char)) (lc : Char → Option Char) (w : List Char) :
    ∃ s, aggregateScores (build ps es) lc w = some s ∧ s.length = w.length :=
  aggregate_some _ (bounded_build ps es) lc w

/-! ## Liang's definition -/

/-- For every set of well-formed patterns with pairwise different letters+anchors, every
exception list and every word of letters that is not a listed exception: the aggregate
scores are Liang's (maximum digit over all (pattern, offset) matches; 0 before the first
letter), computed on the lower-cased word. -/
theorem scores_eq_liang (ps es : List (List Char)) (lc : Char → Option Char) (w lw : List Char)
    (hwf : ∀ p ∈ ps, wellFormed p = true)
    (hnd : ((ps.map parsePat).map Pat.key).Nodup)
    (hl : lowerWord lc w = some lw)
    (hex : findException es lw = none) :
    aggregateScores (build ps es) lc w = some (liangScores (ps.map parsePat) lw) :=
  scores_eq_liang_aux ps es lc w lw hl hwf hnd hex

/-- A word in the exception list is hyphenated exactly as listed — whatever the patterns
(no hypothesis on them at all: any digits 0..9, malformed, duplicated). -/
theorem exceptions_win (ps es : List (List Char)) (lc : Char → Option Char) (w lw e : List Char)
    (hl : lowerWord lc w = some lw)
    (hex : findException es lw = some e) :
    calculateIndices (build ps es) lc w = some (listed e) := by
  unfold calculateIndices
  rw [exception_scores ps es lc w lw e hl hex]
  simp only [Option.map_some, listed]
  rw [oddIdx_listed]

/-- The property: the permitted hyphen positions are those of the specification. -/
theorem hyphenation_spec (ps es : List (List Char)) (lc : Char → Option Char) (w lw : List Char)
    (hwf : ∀ p ∈ ps, wellFormed p = true)
    (hnd : ((ps.map parsePat).map Pat.key).Nodup)
    (hl : lowerWord lc w = some lw) :
    calculateIndices (build ps es) lc w = some (specIndices ps es lw) := by
  unfold specIndices
  cases hex : findException es lw with
  | some e => exact exceptions_win ps es lc w lw e hl hex
  | none =>
    unfold calculateIndices
    rw [scores_eq_liang ps es lc w lw hwf hnd hl hex]
    rfl

/-- Two words with the same lower-cased letters (e.g. differing only in case) get the same
hyphen positions. -/
theorem case_insensitive (ps es : List (List Char)) (lc : Char → Option Char) (w w' lw : List Char)
    (hwf : ∀ p ∈ ps, wellFormed p = true)
    (hnd : ((ps.map parsePat).map Pat.key).Nodup)
    (hl : lowerWord lc w = some lw) (hl' : lowerWord lc w' = some lw) :
    calculateIndices (build ps es) lc w = calculateIndices (build ps es) lc w' := by
  rw [hyphenation_spec ps es lc w lw hwf hnd hl, hyphenation_spec ps es lc w' lw hwf hnd hl']

/-! ## Non-vacuity: concrete instances meeting the hypotheses -/

def exPats : List (List Char) :=
  [['a', '1', 'b'], ['.', 'b', '2', 'c', '.'], ['9', 'b', 'c'], ['a', 'b', '8', 'c']]
def exExcs : List (List Char) := [['a', 'b', '-', 'c']]

example : (∀ p ∈ exPats, wellFormed p = true) := by decide
example : ((exPats.map parsePat).map Pat.key).Nodup := by decide
example : lowerWord asciiLc ['A', 'b', 'C'] = some ['a', 'b', 'c'] := by decide
example : lowerWord asciiLc ['a', 'B'] = some ['a', 'b'] := by decide
example : findException exExcs ['a', 'b', 'c'] = some ['a', 'b', '-', 'c'] := by decide
example : findException exExcs ['a', 'b'] = none := by decide
/-- Patterns alone would give `a-bc` (9 before `b`, 8 before `c`); the exception `ab-c` wins. -/
example : calculateIndices (build exPats exExcs) asciiLc ['A', 'b', 'C'] = some [2] := by decide
example : calculateIndices (build exPats []) asciiLc ['A', 'b', 'C'] = some [1] := by decide
example : specIndices exPats exExcs ['a', 'b', 'c'] = [2] := by decide
example : calculateIndices (build exPats exExcs) asciiLc ['a', 'B'] = some [1] := by decide
/-- A zero run of 17 (one overflow byte) decodes to its digits. -/
example : decodeOps (patOps ("aaaaaaaaaaaaaaaaa3b".toList)).1
    = [0,0,0,0,0,0,0,0,0,0,0,0,0,0,0,0,0,3] := by decide

/-! ## The trie as coded refines the prefix map

`Model/C13Trie.lean` transcribes `mod trie` literally (numbered vertices, one edge map,
`next_vertex`, root `u32::MAX`) and `Hyphenator` on top of it; this is what the driver
executes. Hypothesis everywhere: fewer than `u32::MAX` `next` calls in total (`edgeCount`),
beyond which `next_vertex.0 + 1` overflows in the Rust code. -/

/-- For every insertion sequence (any patterns, any exceptions): following a non-empty path
of edges through the coded trie succeeds exactly when the prefix map has the path as a
prefix, and then carries exactly the prefix map's value; the op streams are identical. -/
theorem trie_refines_prefix_map (ps es : List (List Char)) (hlt : edgeCount ps es < rootV) :
    (cBuild ps es).data = (build ps es).data ∧
    ∀ π, π ≠ [] →
      (cWalk (cBuild ps es).trie π).map (·.2)
        = if hasPrefix (build ps es).trie π = true then some (lookup (build ps es).trie π)
          else none := by
  have r := rel_build ps es hlt
  refine ⟨r.data, ?_⟩
  intro π hπ
  have := r.sim π hπ
  rw [isPrefixOf_nil π hπ, Bool.or_false] at this
  exact this

/-- Distinct paths lead to distinct vertices, vertex numbers stay below the counter and
below the root: the numbering is a faithful naming of paths. -/
theorem trie_numbering_injective (ps es : List (List Char)) (hlt : edgeCount ps es < rootV)
    (π1 π2 : List Edge) (u : Nat) (x1 x2 : Option Nat)
    (h1 : cWalk (cBuild ps es).trie π1 = some (u, x1))
    (h2 : cWalk (cBuild ps es).trie π2 = some (u, x2)) : π1 = π2 :=
  (rel_build ps es hlt).good.inj π1 π2 u x1 x2 h1 h2

/-- The coded hyphenator computes, for every word (letters or not), exactly what the
prefix-map model computes — panic branch included. -/
theorem coded_scores_eq (ps es : List (List Char)) (hlt : edgeCount ps es < rootV)
    (lc : Char → Option Char) (w : List Char) :
    cAggregateScores (cBuild ps es) lc w = aggregateScores (build ps es) lc w :=
  cAggregateScores_eq _ _ (rel_build ps es hlt) lc w

/-- `index_bounds` for the code as written. -/
theorem coded_index_bounds (ps es : List (List Char)) (hlt : edgeCount ps es < rootV)
    (lc : Char → Option Char) (w : List Char) :
    ∃ s, cAggregateScores (cBuild ps es) lc w = some s ∧ s.length = w.length := by
  rw [coded_scores_eq ps es hlt]; exact index_bounds ps es lc w

/-- The property for the code as written (coded trie, coded op stream). -/
theorem coded_hyphenation_spec (ps es : List (List Char)) (hlt : edgeCount ps es < rootV)
    (lc : Char → Option Char) (w lw : List Char)
    (hwf : ∀ p ∈ ps, wellFormed p = true)
    (hnd : ((ps.map parsePat).map Pat.key).Nodup)
    (hl : lowerWord lc w = some lw) :
    cCalculateIndices (cBuild ps es) lc w = some (specIndices ps es lw) := by
  unfold cCalculateIndices
  rw [coded_scores_eq ps es hlt]
  exact hyphenation_spec ps es lc w lw hwf hnd hl

/-- Exceptions win, for the code as written, whatever the patterns. -/
theorem coded_exceptions_win (ps es : List (List Char)) (hlt : edgeCount ps es < rootV)
    (lc : Char → Option Char) (w lw e : List Char)
    (hl : lowerWord lc w = some lw) (hex : findException es lw = some e) :
    cCalculateIndices (cBuild ps es) lc w = some (listed e) := by
  unfold cCalculateIndices
  rw [coded_scores_eq ps es hlt]
  exact exceptions_win ps es lc w lw e hl hex

example : edgeCount exPats exExcs < rootV := by decide
example : cCalculateIndices (cBuild exPats exExcs) asciiLc ['A', 'b', 'C'] = some [2] := by decide

/-! ## Why three one-site changes of the code cannot change any hyphenation -/

/-- (mutant 03) Zero-run bytes before a terminator — `15·16`, `14·16`, any count — are
invisible: position by position the stream reads like the part before them. -/
theorem trailing_zero_run_invisible (ops : List Nat) (hnt : NonTerm ops) (k b z term : Nat)
    (hb : b % 16 = 0) (hterm : term = 10 ∨ term = 11) (j : Nat) :
    (decodeOps (ops ++ (List.replicate k b ++ [term + z * 16]))).getD j 0
      = (decodeOps ops).getD j 0 :=
  terminal_run_invisible ops hnt k b z term hb hterm j

/-- … and for a word of letters the scores depend on a hyphenator only through these
position-by-position readings of the streams stored at its vertices. -/
theorem scores_depend_only_on_digits (h1 h2 : Hyph) (hB1 : Bounded h1) (hB2 : Bounded h2)
    (hv : ∀ π j, (val h1 π).getD j 0 = (val h2 π).getD j 0)
    (lc : Char → Option Char) (w lw : List Char) (hl : lowerWord lc w = some lw) :
    aggregateScores h1 lc w = aggregateScores h2 lc w :=
  scores_depend_on_digits h1 h2 hB1 hB2 hv lc w lw hl

/-- (mutant 16) An exception entry whose letters are not the word — in particular the empty
entry that a blank line would insert, for any non-empty word — changes nothing. -/
theorem irrelevant_exception (ps es1 es2 : List (List Char)) (e0 : List Char)
    (lc : Char → Option Char) (w lw : List Char)
    (hwf : ∀ p ∈ ps, wellFormed p = true)
    (hnd : ((ps.map parsePat).map Pat.key).Nodup)
    (hl : lowerWord lc w = some lw) (hne : stripHyphens e0 ≠ lw) :
    calculateIndices (build ps (es1 ++ e0 :: es2)) lc w
      = calculateIndices (build ps (es1 ++ es2)) lc w := by
  rw [hyphenation_spec ps _ lc w lw hwf hnd hl, hyphenation_spec ps _ lc w lw hwf hnd hl]
  simp only [specIndices, findException_insert es1 es2 e0 lw hne]

/-- (mutant 33) If no pattern has the shape `.w.` of an exception's word, inserting the
exceptions before the patterns gives the same scores. -/
theorem insertion_order_irrelevant (ps es : List (List Char))
    (hdis : ∀ p ∈ ps, ∀ e ∈ es, (parsePat p).key ≠ enc true (stripHyphens e) true)
    (lc : Char → Option Char) (w lw : List Char) (hl : lowerWord lc w = some lw) :
    aggregateScores (loadPatterns (insertExceptions {} es) ps) lc w
      = aggregateScores (build ps es) lc w :=
  order_irrelevant ps es hdis lc w lw hl

/-! ## Plain TeX's patterns (`Tables/C13Plain.lean` = the shipped data files) -/

/-- The hypotheses of the property theorems hold for the shipped pattern set: every one of
the 4447 patterns is well-formed, no two have the same letters and anchors, and the trie
needs far fewer than 2^32 vertices. -/
theorem plain_tex_hypotheses :
    (∀ p ∈ plainPatterns, wellFormed p = true) ∧
    ((plainPatterns.map parsePat).map Pat.key).Nodup ∧
    edgeCount plainPatterns plainExceptions < rootV := by
  refine ⟨?_, nodup_keys_of_sorted _ plain_sorted, plain_edges⟩
  have := plain_wellFormed
  rw [List.all_eq_true] at this
  exact this

/-- `Hyphenator::plain_tex_en_us()`: for every lower-case map and every word of letters the
hyphen positions are the specification's — no hypothesis left. -/
theorem plain_tex_spec (lc : Char → Option Char) (w lw : List Char)
    (hl : lowerWord lc w = some lw) :
    cCalculateIndices (cBuild plainPatterns plainExceptions) lc w
      = some (specIndices plainPatterns plainExceptions lw) :=
  coded_hyphenation_spec _ _ plain_tex_hypotheses.2.2 lc w lw plain_tex_hypotheses.1
    plain_tex_hypotheses.2.1 hl

/-- For the shipped data the order of `load_patterns` / `insert_exceptions` in
`plain_tex_en_us` does not matter (no pattern is `.w.` for an exception word `w`). -/
theorem plain_tex_order_irrelevant (lc : Char → Option Char) (w lw : List Char)
    (hl : lowerWord lc w = some lw) :
    aggregateScores (loadPatterns (insertExceptions {} plainExceptions) plainPatterns) lc w
      = aggregateScores (build plainPatterns plainExceptions) lc w :=
  insertion_order_irrelevant _ _ plain_disjoint lc w lw hl

/-! ## The text front end (`load_patterns(&str)`, `insert_exceptions(&str)`) -/

/-- Parsing the text of a pattern list yields that list, whatever white space (any Unicode
`White_Space`, any amount ≥ 1) separates the patterns and precedes the first one. -/
theorem patterns_text_parses (lead : List Char) (items : List (List Char × Char × List Char))
    (hlead : AllWs lead) (h : TokensOk items) :
    splitWs (lead ++ tokensText items) [] = items.map (·.1) := by
  rw [splitWs_allWs lead hlead, splitWs_tokensText items h]

/-- The result does not depend on how the text is cut into `load_patterns` calls: two calls
are one call on the texts joined by a white-space character … -/
theorem load_split_independent (h : CHyph) (t1 t2 : List Char) (w : Char) (hw : isWs w = true) :
    cLoadText (cLoadText h t1) t2 = cLoadText h (t1 ++ w :: t2) :=
  cLoadText_split h t1 t2 w hw

/-- … and any sequence of calls loads the concatenation of the parsed lists. -/
theorem load_calls_concat (texts : List (List Char)) (h : CHyph) :
    texts.foldl cLoadText h = (texts.flatMap (fun t => splitWs t [])).foldl cLoadPattern h :=
  foldl_cLoadText texts h

/-- Lines of padding + entry + padding (entry possibly absent): `insert_exceptions` sees the
entries in order; blank lines, padding and `\r` vanish. -/
theorem exceptions_text_parses (ls : List (List Char × List Char × List Char))
    (h : ∀ x ∈ ls, AllWs x.1 ∧ Trimmed x.2.1 ∧ AllWs x.2.2 ∧ NoNl (x.1 ++ x.2.1 ++ x.2.2)) :
    exceptionLines (linesText (ls.map (fun x => x.1 ++ x.2.1 ++ x.2.2)))
      = (ls.map (·.2.1)).filter (fun l => !l.isEmpty) :=
  exceptionLines_linesText ls h

/-- The property from text to positions: load any texts, insert an exception text, ask for a
word of letters — the answer is the specification's for the parsed lists. -/
theorem text_hyphenation_spec (ptexts : List (List Char)) (etext : List Char)
    (lc : Char → Option Char) (w lw : List Char)
    (hlt : edgeCount (ptexts.flatMap (fun t => splitWs t [])) (exceptionLines etext) < rootV)
    (hwf : ∀ p ∈ ptexts.flatMap (fun t => splitWs t []), wellFormed p = true)
    (hnd : (((ptexts.flatMap (fun t => splitWs t [])).map parsePat).map Pat.key).Nodup)
    (hl : lowerWord lc w = some lw) :
    cCalculateIndices (cInsertExceptionsText (ptexts.foldl cLoadText {}) etext) lc w
      = some (specIndices (ptexts.flatMap (fun t => splitWs t [])) (exceptionLines etext) lw) := by
  have : cInsertExceptionsText (ptexts.foldl cLoadText {}) etext
      = cBuild (ptexts.flatMap (fun t => splitWs t [])) (exceptionLines etext) := by
    rw [foldl_cLoadText]; rfl
  rw [this]
  exact coded_hyphenation_spec _ _ hlt lc w lw hwf hnd hl

example : splitWs "  a1b\n.b2c.\t abc3 ".toList [] = ["a1b".toList, ".b2c.".toList, "abc3".toList] := by
  decide
example : exceptionLines " a-b \r\n\n\tbc-c".toList = ["a-b".toList, "bc-c".toList] := by decide

/-! ## Very large pattern sets -/

/-- The specification may be evaluated on the patterns whose letters occur in the word only
(what the driver does for pattern sets with tens of thousands of patterns): the others never
match, nothing is lost. -/
theorem liang_restrict (ps es : List (List Char)) (lw : List Char) :
    specIndices (relevant ps lw) es lw = specIndices ps es lw := by
  unfold specIndices
  cases findException es lw with
  | some e => rfl
  | none =>
    simp only
    congr 1
    unfold liangScores
    apply List.map_congr_left
    intro i _
    by_cases hi : i = 0
    · simp [hi]
    · simp only [hi, if_false]
      have hmap : (relevant ps lw).map parsePat
          = (ps.map parsePat).filter (fun P => isInfix P.letters lw) := by
        simp [relevant, List.filter_map, Function.comp_def]
      rw [hmap]
      exact liangAt_filter _ _ lw i (fun P _ hq o => matchesAt_false_of_not_infix P lw o hq)

/-! ## Histories: one hyphenator through loads, inserts and queries -/

/-- The answer to a query is a function of the hyphenator, and queries leave the hyphenator
alone: after any history the state is the one the loads and inserts alone produce, so no
earlier query can influence a later answer. -/
theorem queries_do_not_matter (ops : List Op) (h : CHyph) :
    ops.foldl (applyOpG true) h = (ops.filter (fun o => !o.isQuery)).foldl (applyOpG true) h :=
  foldl_ignores_queries true ops h

/-- Every history whose `load_patterns` calls precede its exception inserts — queries anywhere,
`insert_exception` and `insert_exceptions` mixed, e.g. hyphenate a word, declare an exception
for it, hyphenate it again — answers a query with the specification for the patterns and
exceptions loaded up to that point. -/
theorem history_spec (A B : List Op) (hA : ∀ o ∈ A, o.isExc = false)
    (hB : ∀ o ∈ B, o.isLoad = false)
    (lc : Char → Option Char) (w lw : List Char)
    (hlt : edgeCount (patsOf (A ++ B)) (excsOf (A ++ B)) < rootV)
    (hwf : ∀ p ∈ patsOf (A ++ B), wellFormed p = true)
    (hnd : (((patsOf (A ++ B)).map parsePat).map Pat.key).Nodup)
    (hl : lowerWord lc w = some lw) :
    cCalculateIndices ((A ++ B).foldl (applyOpG true) {}) lc w
      = some (specIndices (patsOf (A ++ B)) (excsOf (A ++ B)) lw) := by
  rw [history_state A B hA hB]
  exact coded_hyphenation_spec _ _ hlt lc w lw hwf hnd hl

/-- … in particular the exception declared after the word was first hyphenated wins. -/
example :
    cCalculateIndices (([Op.loadText "a1b 1c".toList, Op.query "abab".toList] ++
        [Op.exc "ab-ab".toList, Op.query "ABAB".toList]).foldl (applyOpG true) {}) asciiLc
      "Abab".toList = some [2] := by decide

/-- For EVERY history — loads, single and multi exception inserts and queries in any order —
the hyphenator as coded (numbered trie, `holds_exception` test) computes for every word exactly
what the prefix-map hyphenator computes after the same history. -/
theorem history_refines (ops : List Op) (hlt : (ops.map opEdges).sum < rootV)
    (lc : Char → Option Char) (w : List Char) :
    cAggregateScores (ops.foldl (applyOpG true) {}) lc w
      = aggregateScores (ops.foldl aApply {}) lc w :=
  cAggregateScores_eq _ _ (rel_history ops {} {} rel_empty (by simpa using hlt)) lc w

/-- The full statement for arbitrary histories (NOT proved yet, see `notes/C13.md`): every query
equals the specification of (patterns loaded so far, exceptions inserted so far). -/
def history_spec_full_statement : Prop :=
  ∀ (ops : List Op) (lc : Char → Option Char) (w lw : List Char),
    (ops.map opEdges).sum < rootV →
    (∀ p ∈ patsOf ops, wellFormed p = true) →
    (((patsOf ops).map parsePat).map Pat.key).Nodup →
    lowerWord lc w = some lw →
    cCalculateIndices (ops.foldl (applyOpG true) {}) lc w
      = some (specIndices (patsOf ops) (excsOf ops) lw)

/-- What is proved of it: the histories whose loads precede their exception inserts (queries
anywhere). Missing for the rest: the trie invariant with "an exception beats a later pattern"
(`Inv` with a winner function instead of `newest`) on the prefix-map side; the coded side is
done for every history (`history_refines`). -/
theorem history_spec_partial (A B : List Op) (hA : ∀ o ∈ A, o.isExc = false)
    (hB : ∀ o ∈ B, o.isLoad = false)
    (lc : Char → Option Char) (w lw : List Char)
    (hlt : edgeCount (patsOf (A ++ B)) (excsOf (A ++ B)) < rootV)
    (hwf : ∀ p ∈ patsOf (A ++ B), wellFormed p = true)
    (hnd : (((patsOf (A ++ B)).map parsePat).map Pat.key).Nodup)
    (hl : lowerWord lc w = some lw) :
    cCalculateIndices ((A ++ B).foldl (applyOpG true) {}) lc w
      = some (specIndices (patsOf (A ++ B)) (excsOf (A ++ B)) lw) :=
  history_spec A B hA hB lc w lw hlt hwf hnd hl

/-- Finding C13-b, refutation for the code before `fixes/C13-b.patch` (`guard = false`): the
exception `ab` is declared, then the pattern `.a1b.` is loaded; the pre-fix code hyphenates
`a-b`, the specification (and the code as it is now) says `ab`. -/
example :
    cCalculateIndices ([Op.exc "ab".toList, Op.loadText ".a1b.".toList].foldl (applyOpG false) {})
      asciiLc "ab".toList = some [1] := by decide
example :
    cCalculateIndices ([Op.exc "ab".toList, Op.loadText ".a1b.".toList].foldl (applyOpG true) {})
      asciiLc "ab".toList = some [] := by decide
example :
    specIndices (patsOf [Op.exc "ab".toList, Op.loadText ".a1b.".toList])
      (excsOf [Op.exc "ab".toList, Op.loadText ".a1b.".toList]) "ab".toList = [] := by decide

end C13
