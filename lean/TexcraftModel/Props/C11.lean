/-
C11 — TFM↔PL conversion is an idempotent normalisation that preserves the font.

Proved here (for all programs / value lists, by induction — see `Lemmas/C11*.lean`), about
the model `Model/C11.lean` of the algorithmic parts of the conversion:

* `pack_preserves`        every character starts the same SKIP/STOP chain after `pack_entrypoints`
* `pack_boundary`, `pack_spec`   the boundary char and the left-boundary program are recovered by the
                          reader; the executable spec `checkPack` (run by the driver on the real output) holds of M
* `pack_total`            no panic for at most 256 distinct entry points (fix C11-a)
* `pack_idempotent`       the PL-level view of the packed table is the table that was packed
* `ligkern_meaning_preserved`    `C05.rule` of the TFM-level program = `C05.rule` of the PL-level program
* `roundtrip_ligkern_same_font`, `roundtrip_ligkern_idempotent`
                          the lig/kern layer of the property at byte level: `predict` (whose output the harness
                          requires to equal the real bytes of t1) preserves TeX's rule function and is idempotent
* `roundtrip_chars_same_values`, `roundtrip_chars_idempotent`, `dimension_text_exact`
                          the character layer at byte level (`charsTrip`, tied to the real bytes of t1): every value
                          survives, the second trip is the identity; the decimal text is exact (C17's theorem imported)
* `roundtrip_header_preserved`, `roundtrip_header_idempotent`
                          the header layer at byte level (`headerTrip`, tied to the real header bytes of t1)
* `sem_check_sound`       the driver's rule comparison is a proved checker
* `normalise_preserves_rule`, `normalise_canonical`, `pack_nwf`, `normalise_pack`, `normalise_idempotent`
                          tftopl's normalisation of the instruction list (unreachable words dropped, SKIPs and
                          labels renumbered) preserves `C05.rule`, yields a well-formed all-reachable program,
                          inverts `pack`, and the second trip reproduces the first trip's result
* `kerns_roundtrip`       `pack_kerns ∘ unpack_kerns = id`
* `dedup_sort_idempotent`, `table_canonical`, `index_preserved`, `index_absent`
                          the dimension tables are a canonical form and keep every character's value

PARTIAL (DESIGN 5.12): byte-for-byte idempotence of the whole pipeline, header and parameter
preservation, PL printing/parsing are established by the correspondence harness only
(`harness/src/bin/c11.rs`: t1 = t2 bytewise on every corpus and generated font).
-/
import TexcraftModel.Model.C05
import TexcraftModel.Model.C11
import TexcraftModel.Model.C11Bridge
import TexcraftModel.Lemmas.C11Chain
import TexcraftModel.Lemmas.C11Pack
import TexcraftModel.Lemmas.C11Boundary
import TexcraftModel.Lemmas.C11Kerns
import TexcraftModel.Lemmas.C11Dims
import TexcraftModel.Lemmas.C11Rule
import TexcraftModel.Lemmas.C11Sem
import TexcraftModel.Model.C11Norm
import TexcraftModel.Lemmas.C11Norm
import TexcraftModel.Lemmas.C11NormReach
import TexcraftModel.Lemmas.C11NormPack
import TexcraftModel.Lemmas.C11Parse
import TexcraftModel.Model.C11Words
import TexcraftModel.Lemmas.C11Words
import TexcraftModel.Model.C11Predict
import TexcraftModel.Lemmas.C11PredictA
import TexcraftModel.Lemmas.C11PredictB
import TexcraftModel.Lemmas.C11PredictC
import TexcraftModel.Model.C11Layers
import TexcraftModel.Lemmas.C11Layers
import TexcraftModel.Props.C17
import TexcraftModel.Model.C11Header
import TexcraftModel.Lemmas.C11Header

namespace C11.Thm
open C11

/-- **pack_preserves.** For a PL-level program (no redirect words, SKIPs inside the table, every
label in front of a step: `wf`) and entry points with distinct characters: if
`pack_entrypoints` returns, then for every character `c` with entry point `e` the returned
map has a byte `e8 ≤ 255` for `c`, `unpack_entrypoint e8` succeeds on the packed table, and
the chain of instructions it starts (`instructions_for_entrypoint`) is exactly the chain `e`
started in the original table — with or without redirect words, with or without a boundary
character, including "location 0 does double duty". -/
theorem pack_preserves {p : Prog} {entries : List (Nat × Nat)} {P : Prog} {pe : List (Nat × Nat)}
    (h : pack p entries = some (P, pe)) (hwf : wf p entries = true)
    (hnd : (entries.map (·.1)).Nodup) :
    ∀ ce ∈ entries, entryOk p.instrs P.instrs pe ce = true :=
  pack_preserves_entry h hwf hnd

/-- Non-vacuity: a program with a boundary char whose two labels need redirect words
(entry points 255 and 256 of a 300-step table), "location 0 does double duty". -/
example :
    let p : Prog := ⟨(List.range 300).map (fun i => ⟨some 0, i % 7, .kern i⟩) ++ [⟨none, 1, .kern 5⟩], none, some 65⟩
    let es := [(97, 255), (98, 256), (99, 3)]
    wf p es = true ∧ (es.map (·.1)).Nodup ∧
      (pack p es).map (·.2) = some [(97, 1), (98, 0), (99, 5)] := by
  decide +kernel

/-- **pack_boundary.** What the `.tfm` reader recovers from the packed words: the same
boundary char (from word 0) and, when the program has a left-boundary entry point, a
left-boundary entry point (from the last word) that starts the original chain. -/
theorem pack_boundary {p : Prog} {entries : List (Nat × Nat)} {P : Prog} {pe : List (Nat × Nat)}
    (h : pack p entries = some (P, pe)) (hwf : wf p entries = true) : boundaryOk p P = true :=
  C11.pack_boundary h hwf

/-- **pack_spec.** The executable specification that the driver evaluates on the *real*
`pack_entrypoints` output holds of the model's output (so M-vs-S can never differ). -/
theorem pack_spec {p : Prog} {entries : List (Nat × Nat)} {P : Prog} {pe : List (Nat × Nat)}
    (h : pack p entries = some (P, pe)) (hwf : wf p entries = true)
    (hnd : (entries.map (·.1)).Nodup) : checkPack p entries P pe = true :=
  pack_checkPack h hwf hnd

/-- **pack_total.** With at most 256 distinct entry points — there are only 256 characters —
`pack_entrypoints` does not panic (this is the theorem fix C11-a makes true: before it the
redirect counter was a `u8` and the 256th redirect overflowed it). -/
theorem pack_total (p : Prog) (entries : List (Nat × Nat))
    (hlen : (descDistinct (entries.map (·.2))).length ≤ 256) : ∃ r, pack p entries = some r :=
  pack_total_aux p entries hlen

/-- Non-vacuity of `pack_total` at the limit: 256 characters with the 256 distinct entry
points 1..256 (all of them need a redirect word) — the input on which the unfixed code panics. -/
example :
    let es := (List.range 256).map (fun c => (c, c + 1))
    (descDistinct (es.map (·.2))).length = 256 ∧
      ((pack ⟨(List.range 257).map (fun i => ⟨none, i % 5, .kern i⟩), none, none⟩ es).map
        (fun r => (r.1.instrs.length, r.2.take 2, r.2.drop 254))) =
        some (513, [(0, 255), (1, 254)], [(254, 1), (255, 0)]) := by
  decide +kernel

/-- **pack_idempotent.** Reading the packed table the way the PL printer and parser do —
redirect words omitted, a label's position = number of non-redirect words before it — gives
back exactly the program (`stripRedirects`), boundary char, left-boundary position and entry
points `pack` was applied to. `pack` being a function, packing the re-read program
reproduces the packed table: on the lig/kern part the second trip is the identity. -/
theorem pack_idempotent {p : Prog} {entries : List (Nat × Nat)} {P : Prog} {pe : List (Nat × Nat)}
    (h : pack p entries = some (P, pe)) (hwf : wf p entries = true)
    (hnd : (entries.map (·.1)).Nodup) :
    stripRedirects P.instrs = p.instrs ∧ P.rb = p.rb ∧
      P.lb.map (plIndex P.instrs) = p.lb ∧
      ∀ ce ∈ entries, ∃ u e', lookup pe ce.1 = some u ∧ unpackEntry P.instrs u = some e' ∧
        plIndex P.instrs e' = ce.2 :=
  pack_pl_view h hwf hnd

/-- **ligkern_meaning_preserved.** `pl_to_tfm` turns the PL-level program `p` (kern values
inline, 16-bit label positions `entries`) into the TFM-level program `pack (unpack_kerns p)`
with a kerns array and byte entry points. Read back as TeX / `compile_from_tfm_file` read it
(byte entry points unpacked through the redirect words, left-boundary entry point from the
trailing word, `KernAtIndex` through the array), it has the same `C05.rule` as `p` for every
left character or the left boundary and every right character — hence (C05's
`compiled_eq_interp`) identical behaviour on every word. -/
theorem ligkern_meaning_preserved {p : Prog} {entries : List (Nat × Nat)} {P : Prog} {pe : List (Nat × Nat)}
    (hk : noKernAt p.instrs = true) (hwf : wf p entries = true)
    (h : pack ⟨(unpackKerns p.instrs).1, p.lb, p.rb⟩ entries = some (P, pe)) :
    ∀ (l : Option Nat) (r : Nat),
      C05.rule (toC05 P (unpackAll P.instrs pe) (unpackKerns p.instrs).2) l r =
        C05.rule (toC05 p entries []) l r :=
  ligkern_meaning_preserved_full hk hwf h

/-- Packing alone preserves the rule function, whatever the kerns array. -/
theorem ligkern_meaning_preserved_pack {p : Prog} {entries : List (Nat × Nat)} {P : Prog} {pe : List (Nat × Nat)}
    (h : pack p entries = some (P, pe)) (hwf : wf p entries = true) (kerns : List Int) :
    ∀ (l : Option Nat) (r : Nat),
      C05.rule (toC05 P (unpackAll P.instrs pe) kerns) l r = C05.rule (toC05 p entries kerns) l r :=
  rule_pack h hwf kerns

/-- Non-vacuity: a program with a ligature, two kerns of equal value, a label behind
position 255 and a left-boundary program; the packed program has a redirect word and the
rule of the redirected character is found through it. -/
example :
    let body : List Instr := (List.range 256).map (fun _ => ⟨some 0, 200, .kern 7⟩)
    let p : Prog := ⟨body ++ [⟨some 0, 66, .lig 67 7⟩, ⟨none, 68, .kern 7⟩], some 3, some 66⟩
    let es := [(65, 256), (66, 0)]
    noKernAt p.instrs = true ∧ wf p es = true ∧
      (∃ P pe, pack ⟨(unpackKerns p.instrs).1, p.lb, p.rb⟩ es = some (P, pe) ∧
        pe = [(65, 0), (66, 1)] ∧
        C05.rule (toC05 P (unpackAll P.instrs pe) (unpackKerns p.instrs).2) (some 65) 68 = some (.kern 7) ∧
        C05.rule (toC05 P (unpackAll P.instrs pe) (unpackKerns p.instrs).2) (some 65) 66 = some (.lig 67 .neither)) := by
  refine ⟨by decide +kernel, by decide +kernel, _, _, rfl, by decide +kernel, by decide +kernel, by decide +kernel⟩

/-! ## The TFM→PL→TFM normalisation of the instruction list (`Model/C11Norm.lean`) -/

/-- **normalise_preserves_rule.** Dropping the unreachable words, renumbering the SKIPs over
them and turning entry points into label positions (`normalise` = closed form of what the
LIGTABLE printer writes and the parser reads back) does not change `C05.rule` on any left
character or boundary and right character, whatever the kerns array. Hypotheses `nwf`:
SKIPs inside the table, entry points address words, the left-boundary entry point addresses a
word other than the last, no reachable word is a redirect word. -/
theorem normalise_preserves_rule {p : Prog} {es : List (Nat × Nat)} (h : nwf p es = true) (ks : List Int) :
    ∀ (l : Option Nat) (r : Nat),
      C05.rule (toC05 (normalise p es).1 (normalise p es).2 ks) l r = C05.rule (toC05 p es ks) l r :=
  normalise_rule h ks

/-- **normalise_canonical.** The normalised program is a well-formed PL-level program (`wf`: no
redirect words, SKIPs inside, every label in front of a step) in which *every* step is
reachable from a label, and it labels the same characters. -/
theorem normalise_canonical {p : Prog} {es : List (Nat × Nat)} (h : nwf p es = true) :
    wf (normalise p es).1 (normalise p es).2 = true ∧ AllReach (normalise p es).1 (normalise p es).2 ∧
      (normalise p es).2.map (·.1) = es.map (·.1) :=
  normalise_wf_allReach h

/-- **pack_nwf.** The table `pack` builds from a well-formed PL-level program, with its
entry points unpacked as the reader unpacks them, satisfies `nwf`. -/
theorem pack_nwf {q : Prog} {es : List (Nat × Nat)} {P : Prog} {pe : List (Nat × Nat)}
    (h : pack q es = some (P, pe)) (hwf : wf q es = true) : nwf P (unpackAll P.instrs pe) = true :=
  pack_nwf_aux h hwf

/-- **normalise_pack.** `normalise ∘ unpack ∘ pack = id` on a well-formed PL-level program all
of whose steps are reachable: what tftopl makes of the table pltotf wrote is the program
(and the label positions) pltotf was given. -/
theorem normalise_pack {q : Prog} {es : List (Nat × Nat)} {P : Prog} {pe : List (Nat × Nat)}
    (h : pack q es = some (P, pe)) (hwf : wf q es = true) (hall : AllReach q es) :
    normalise P (unpackAll P.instrs pe) = (q, es) :=
  normalise_pack_aux h hwf hall

/-- **normalise_idempotent (second trip = identity on the lig/kern program).** Start from any
TFM-level program `P` with unpacked entry points `es` (`nwf`). First trip: tftopl prints
`normalise P es = (q, es')`, pltotf packs it into `P1`. Second trip: tftopl's view of `P1` is
again exactly `(q, es')` — so pltotf, a function of that view, writes `P1` again — and `P1`
has the same rule function as `P`. (Literally `normalise (normalise P)` is not the
operation the pipeline performs: the second `normalise` runs on the *packed* table.) -/
theorem normalise_idempotent {P : Prog} {es : List (Nat × Nat)} {P1 : Prog} {pe1 : List (Nat × Nat)}
    (h : nwf P es = true)
    (hp : pack (normalise P es).1 (normalise P es).2 = some (P1, pe1)) (ks : List Int) :
    normalise P1 (unpackAll P1.instrs pe1) = normalise P es ∧
      ∀ (l : Option Nat) (r : Nat),
        C05.rule (toC05 P1 (unpackAll P1.instrs pe1) ks) l r = C05.rule (toC05 P es ks) l r := by
  obtain ⟨hwf, hall, _⟩ := normalise_wf_allReach h
  refine ⟨normalise_pack_aux hp hwf hall, ?_⟩
  intro l r
  rw [rule_pack hp hwf ks l r, normalise_rule h ks l r]

/-- **printParse_eq_normalise.** The transcribed passes — `printItems` (the LIGTABLE part of
`pl::File::lower`, driven by `reachable_array` and `ReachableIter`'s adjusted SKIPs) followed
by `parseItems` (the `LigTable` arm of `pl::File::from_ast` and the final SKIP 0 → STOP) —
compose to the closed form `normalise` the theorems above are about: same instruction list,
same boundary data, and every character gets the same label position; whenever no reachable
word is a redirect word and the characters are distinct. -/
theorem printParse_eq_normalise {p : Prog} {es : List (Nat × Nat)}
    (hnr : noReachRedirect p.instrs (reachable p es) = true) (hnd : (es.map (·.1)).Nodup) :
    (printParse p es).1 = (normalise p es).1 ∧
      ∀ c, lookup (printParse p es).2 c = lookup (normalise p es).2 c :=
  printParse_normalise hnr hnd

/-- Non-vacuity: a TFM-level table with a boundary-char carrier in front, an unreachable step
that a SKIP jumps over, and a left-boundary word behind. The unreachable step and the two
redirect words disappear, `SKIP 1` becomes `SKIP 0`, the labels move from 1, 4 to 0, 2. -/
example :
    let P : Prog := ⟨[⟨none, 65, .redirect 0 true⟩, ⟨some 1, 66, .kern 5⟩, ⟨none, 67, .kern 6⟩,
      ⟨none, 68, .lig 69 7⟩, ⟨none, 70, .kern 7⟩, ⟨none, 0, .redirect 4 false⟩], some 4, some 65⟩
    let es := [(97, 1)]
    nwf P es = true ∧
      normalise P es = (⟨[⟨some 0, 66, .kern 5⟩, ⟨none, 68, .lig 69 7⟩, ⟨none, 70, .kern 7⟩], some 2, some 65⟩, [(97, 0)]) ∧
      printParse P es = normalise P es ∧
      (∃ P1 pe1, pack (normalise P es).1 (normalise P es).2 = some (P1, pe1) ∧
        normalise P1 (unpackAll P1.instrs pe1) = normalise P es) := by
  refine ⟨by decide, by decide, by decide, _, _, rfl, by decide⟩

/-- **Known finding C11-f (negation at the witness).** A redirect word that a chain reaches
(word 2, reached by falling through from word 1) while a SKIP jumps over it (word 0, `SKIP 2`):
`noReachRedirect` fails, the printed `SKIP 2` now leaves the three-step table, and the pair
`(97, 67)` loses its kern — `C05.rule` differs before and after. -/
example :
    let P : Prog := ⟨[⟨some 2, 65, .kern 5⟩, ⟨some 0, 66, .kern 6⟩, ⟨none, 0, .redirect 0 true⟩, ⟨none, 67, .kern 7⟩], none, none⟩
    let es := [(97, 0), (98, 1)]
    nwf P es = false ∧
      C05.rule (toC05 P es []) (some 97) 67 = some (.kern 7) ∧
      C05.rule (toC05 (printParse P es).1 (printParse P es).2 []) (some 97) 67 = none := by
  refine ⟨by decide, by decide, by decide⟩

/-- Outside `nwf` the rule does change — a SKIP chain that runs into a redirect word whose
right character matches (the "phantom" pair of C05-a) loses that pair, which C05's `rule`
reports as a non-executed `none` anyway; and a left-boundary entry point that addresses the
*last* word is dropped (the TFtoPL quirk `reachable_array` reproduces). Witness for the
latter: -/
example :
    let P : Prog := ⟨[⟨none, 66, .kern 5⟩], some 0, none⟩
    nwf P [] = false ∧ (normalise P []).1.lb = none ∧ (normalise P []).1.instrs = [] := by decide

/-! ## Words (`Model/C11Words.lean`): the byte level of the lig/kern sub-file -/

/-- **word_roundtrip.** Decoding (as TeX / TFtoPL.2014.13 read a word: skip byte < 128 = steps
to pass over, 128 = stop, > 128 = unconditional stop with a restart address) an encoded
(serialize.rs) LIG/KRN step gives the step back — in particular SKIP counts up to the
format's maximum 127 survive. The harness hands the *raw* words of t0, t1 to this decoder and
compares `C05.rule` on them, independently of the Rust reader. -/
theorem word_roundtrip (rb : Option Nat) (i : Instr) (w : Word) (hok : wordOk i = true)
    (hop : i.op.isRedirect = false) (he : encodeWord rb i = some w) : decodeWord w = i :=
  word_roundtrip_step rb i w hok hop he

/-- A redirect word decodes to an unconditional stop with the same restart address. -/
theorem word_roundtrip_redirect_word (rb next : Option Nat) (right u : Nat) (flag : Bool) (w : Word)
    (hu : u < 65536) (he : encodeWord rb ⟨next, right, .redirect u flag⟩ = some w) :
    decodeWord w = ⟨none, w.b1, .redirect u true⟩ :=
  word_roundtrip_redirect rb next right u flag w hu he

/-- The "skip byte = 255" test by which the reader finds the boundary character (word 0)
and the left-boundary program (last word) is `skip255`, the predicate `pack_boundary` uses. -/
theorem skip_byte_255 (rb : Option Nat) (i : Instr) (w : Word) (hok : wordOk i = true)
    (he : encodeWord rb i = some w) : (w.b0 = 255) ↔ skip255 rb i = true :=
  skip255_encode rb i w hok he

example : decodeWord ⟨127, 65, 128, 3⟩ = ⟨some 127, 65, .kernAt 3⟩ ∧
    decodeWord ⟨128, 65, 5, 66⟩ = ⟨none, 65, .lig 66 4⟩ ∧
    encodeWord none ⟨some 127, 65, .kernAt 3⟩ = some ⟨127, 65, 128, 3⟩ := by decide

/-- **seven_bit_safe_sound.** PLtoTF's syntactic test on the lig/kern program (`ligSafe`, the
lig/kern part of `safe7`, which the harness evaluates on the raw bytes of t0 to decide when
`NotReallySevenBitSafe` may be raised and what flag t1 must carry) implies the semantic
statement: a seven-bit left character and a seven-bit right character never have a ligature
rule that inserts an eight-bit character. -/
theorem seven_bit_safe_sound (instrs : List Instr) (lb rb : Option Nat) (entries : List (Nat × Nat)) (ks : List Int)
    (h : ligSafe instrs entries = true) (c r z : Nat) (p : C05.PostLig) (hc : c < 128) (hr : r < 128)
    (hrule : C05.rule (toC05 ⟨instrs, lb, rb⟩ entries ks) (some c) r = some (.lig z p)) : z < 128 :=
  ligSafe_sound instrs lb rb entries ks h c r z p hc hr hrule

/-- A step `a + 0xA8 → 0xE4` of a seven-bit character does not make the font unsafe (the right
character is not seven-bit); the same step on a seven-bit right character does. -/
example : ligSafe [⟨none, 0xA8, .lig 0xE4 7⟩] [(97, 0)] = true ∧
    ligSafe [⟨none, 0x28, .lig 0xE4 7⟩] [(97, 0)] = false := by decide

/-! ## The lig/kern layer of the property at byte level (`Model/C11Predict.lean`)

`predict` is the whole lig/kern part of `pl_to_tfm ∘ tfm_to_pl` on the raw sub-file (words,
lig remainders, kerns); the harness requires its output to *equal the bytes of the real t1*
(stream `predict`), so these two theorems are the property itself for the lig/kern layer. -/

/-- **roundtrip_ligkern_same_font.** For every raw lig/kern table in the quantifier (`rawOk`:
distinct characters, `nwf` of the decoded program) the table written by one trip has the same
`(left, right) ↦ operation` function — decoded from the bytes as TeX decodes them — as the
original, on every character pair and the left boundary. -/
theorem roundtrip_ligkern_same_font {b b1 : RawLK} (h : rawOk b = true) (hp : predict b = some b1) :
    ∀ (l : Option Nat) (r : Nat), rawRule b1 l r = rawRule b l r :=
  predict_rule h hp

/-- **roundtrip_ligkern_idempotent.** The second trip writes the same lig/kern sub-file,
byte for byte: `predict (predict b) = predict b`. -/
theorem roundtrip_ligkern_idempotent {b b1 : RawLK} (h : rawOk b = true) (hp : predict b = some b1) :
    predict b1 = some b1 :=
  predict_idem h hp

/-- Non-vacuity: a 5-word table of a font without boundary char — word 0 is an unreachable
step, character 97 starts at word 1 (`SKIP 1` over the unreachable word 2), character 98 at
word 3, kerns given by index. One trip drops the two unreachable words, renumbers the SKIP
and the entry points, and re-indexes the kerns; the result is a fixed point. -/
example :
    let b : RawLK := ⟨[⟨128, 70, 128, 1⟩, ⟨1, 65, 128, 1⟩, ⟨128, 66, 128, 0⟩, ⟨0, 67, 128, 0⟩, ⟨128, 68, 0, 69⟩],
      [(97, 1), (98, 3)], [5, 7]⟩
    rawOk b = true ∧
      predict b = some ⟨[⟨0, 65, 128, 0⟩, ⟨0, 67, 128, 1⟩, ⟨128, 68, 0, 69⟩], [(97, 0), (98, 1)], [7, 5]⟩ ∧
      (predict b).bind predict = predict b := by
  refine ⟨by decide, by decide, by decide⟩

/-! ## The character layer at byte level (`Model/C11Layers.lean`)

`charsTrip` is `pl_to_tfm ∘ tfm_to_pl` on the char_info words of the existing characters, the
four dimension tables and the recipe words; the harness requires its output to equal the bytes
of the real t1 (stream `chars`). The decimal text in between is exact by C17. -/

/-- **roundtrip_chars_same_values.** Every existing character keeps its code, its tag kind and
the width, height, depth and italic correction its index bytes select (in the *new* tables);
NEXTLARGER targets are copied; every VARCHAR character finds, under its new remainder, the
recipe tftopl printed for it (`REP` replaced by the character itself when it does not exist). -/
theorem roundtrip_chars_same_values (x : RawChars) (h : charsOk x = true) :
    (charsTrip x).rows.map (fun r => (r.code, r.tag, sel (charsTrip x).W r.wi, sel (charsTrip x).H r.hi,
        sel (charsTrip x).D r.di, sel (charsTrip x).I r.ii)) =
      x.rows.map (fun r => (r.code, r.tag, sel x.W r.wi, sel x.H r.hi, sel x.D r.di, sel x.I r.ii)) ∧
    (charsTrip x).rows.filterMap (fun r => if r.tag = 2 then some (r.code, r.rem) else none) =
      x.rows.filterMap (fun r => if r.tag = 2 then some (r.code, r.rem) else none) ∧
    (charsTrip x).rows.filterMap (fun r => if r.tag = 3 then (charsTrip x).ext[r.rem]? else none) =
      x.rows.filterMap (recipeOf x (x.rows.map (·.code))) :=
  ⟨charsTrip_values_aux x h, (charsTrip_tags_aux x).1, (charsTrip_tags_aux x).2⟩

/-- **roundtrip_chars_idempotent.** The second trip is the identity on the character layer:
index bytes, the four tables (zero first, distinct values ascending) and the recipe words. -/
theorem roundtrip_chars_idempotent (x : RawChars) (h : charsOk x = true) :
    charsTrip (charsTrip x) = charsTrip x :=
  charsTrip_idem_aux x h

/-- Non-vacuity: three characters, unsorted tables with a duplicate width, an explicit zero
depth at a non-zero index, a NEXTLARGER and a VARCHAR whose REP does not exist. -/
example :
    let x : RawChars := ⟨[⟨65, 2, 1, 1, 0, 2, 66⟩, ⟨66, 1, 0, 2, 1, 3, 0⟩, ⟨67, 3, 2, 0, 0, 0, 9⟩],
      [0, 700, 300, 700], [0, 50, 20], [0, 0, 9], [0, 4], [⟨0, 65, 0, 99⟩]⟩
    charsOk x = true ∧
      charsTrip x = ⟨[⟨65, 1, 2, 0, 0, 2, 66⟩, ⟨66, 2, 0, 1, 1, 3, 0⟩, ⟨67, 2, 1, 0, 0, 0, 0⟩],
        [0, 300, 700], [0, 20, 50], [0, 9], [0, 4], [⟨0, 65, 0, 66⟩]⟩ := by
  refine ⟨by decide, by decide⟩

/-! ## The header layer at byte level (`Model/C11Header.lean`)

`headerTrip safe hb` models the header bytes of t1 from those of t0 and the seven-bit safety of
the font; the harness requires it to equal the real header of t1 (stream `header`). The
parameter words are copied (compared byte for byte; their text is exact by C17). -/

/-- **roundtrip_header_preserved.** For a full header (at least 18 words) the trip keeps the
checksum and the design size (bytes 0–7), the face byte and every additional word; the two
strings come back with their leading blanks dropped and exactly upper-cased (known findings
C11-g and C11-d are this and nothing else; blanks inside and at the end are kept) and the
flag byte is the seven-bit safety of the font (C11-c). For a shorter header the missing
fields are the PL defaults (`schemeOf`/`familyOf`/`faceOf`: `UNSPECIFIED`, face 0 — C11-e). -/
theorem roundtrip_header_preserved (safe : Bool) (hb : List Nat) (h : headerOk hb = true) :
    (headerTrip safe hb).take 8 = hb.take 8 ∧
    strAt (headerTrip safe hb) 8 = schemeOf hb ∧
    strAt (headerTrip safe hb) 48 = familyOf hb ∧
    (headerTrip safe hb)[68]? = some (if safe then 128 else 0) ∧
    (headerTrip safe hb)[71]? = some (faceOf hb) ∧
    (headerTrip safe hb).drop 72 = hb.drop 72 := by
  obtain ⟨_, h1, h2, h3, h4, h5, h6⟩ := headerTrip_parts safe hb h
  exact ⟨h1, h2, h3, h4, h5, h6⟩

/-- **roundtrip_header_idempotent.** The second trip is the identity on the header. -/
theorem roundtrip_header_idempotent (safe : Bool) (hb : List Nat) (h : headerOk hb = true) :
    headerTrip safe (headerTrip safe hb) = headerTrip safe hb :=
  headerTrip_idem_aux safe hb h

/-- Non-vacuity: a 2-word header (checksum, design size) is padded with the PL defaults. -/
example : headerOk [1, 2, 3, 4, 0, 160, 0, 0] = true ∧
    (headerTrip true [1, 2, 3, 4, 0, 160, 0, 0]).length = 72 ∧
    (headerTrip true [1, 2, 3, 4, 0, 160, 0, 0]).take 21 =
      [1, 2, 3, 4, 0, 160, 0, 0, 11, 85, 78, 83, 80, 69, 67, 73, 70, 73, 69, 68, 0] := by decide

/-- **dimension_text_exact** (C17's `fix_print_parse`, imported, not trusted): every fix_word
except `0x80000000` that tftopl prints — every width, height, depth, italic correction, kern,
parameter and the design size — is read back by pltotf as the identical 32-bit value. This is
what lets `charsTrip` and `predict` carry *values* across the property-list text. -/
theorem dimension_text_exact (v : Int) (hlo : -2147483648 < v) (hhi : v ≤ 2147483647) :
    C17.parseFix (C17.plText v) = ⟨v, .none⟩ :=
  C17.fix_print_parse v hlo hhi

/-- **sem_check_sound.** The comparison the driver runs on the instruction lists decoded
from t0 and t1 (`firstRuleDiff`, which searches only left characters with an entry point and
right characters that occur in an instruction) is a proved checker: no difference found means
the two rule functions agree on *every* pair and boundary. -/
theorem sem_check_sound (p q : C05.Program) (h : firstRuleDiff p q = none) :
    ∀ (l : Option Nat) (r : Nat), C05.rule p l r = C05.rule q l r :=
  firstRuleDiff_sound p q h

/-- **Known finding C11-b (negation at the witness).** A label that no step follows (entry
point = number of instructions, outside `wf`) is *not* preserved: after packing, the
character's entry point addresses the left-boundary word and `unpack_entrypoint` follows it,
so the character inherits the boundary's program. -/
example :
    let p : Prog := ⟨[⟨none, 66, .kern 1⟩], some 0, none⟩
    let es := [(65, 1)]
    wf p es = false ∧ (∃ P pe, pack p es = some (P, pe) ∧ entryOk p.instrs P.instrs pe (65, 1) = false) := by
  refine ⟨by decide, _, _, rfl, by decide⟩

/-- **kerns_roundtrip.** `pack_kerns` undoes `unpack_kerns` on every PL-level program
(no `KernAtIndex`): the kern *values* every instruction refers to survive the TFM encoding. -/
theorem kerns_roundtrip (l : List Instr) (h : noKernAt l = true) :
    packKerns (unpackKerns l).2 (unpackKerns l).1 = l :=
  C11.kerns_roundtrip l h

/-- After `unpack_kerns` no `Kern` operation is left, skips and right characters are untouched,
and the kerns array stores each value once (so a second `unpack_kerns ∘ pack_kerns` finds the
same array: the kern table is canonical). -/
theorem unpack_kerns_canonical (l : List Instr) :
    (∀ i ∈ (unpackKerns l).1, ∀ k, i.op ≠ Op.kern k) ∧
    (unpackKerns l).1.map (fun i => (i.next, i.right)) = l.map (fun i => (i.next, i.right)) ∧
    (unpackKerns l).2.Nodup :=
  ⟨unpackKerns_no_kern l, unpackKerns_shape l, unpackKerns_nodup l⟩

example : unpackKerns [⟨some 0, 1, .kern 5⟩, ⟨some 0, 2, .kern 7⟩, ⟨none, 3, .kern 5⟩] =
    ([⟨some 0, 1, .kernAt 0⟩, ⟨some 0, 2, .kernAt 1⟩, ⟨none, 3, .kernAt 0⟩], [5, 7]) := by decide

/-- **dedup_sort_idempotent.** Normalising a normalised value list changes nothing. -/
theorem dedup_sort_idempotent (l : List Int) : sortDedup (sortDedup l) = sortDedup l :=
  C11.dedup_sort_idempotent l

/-- The dimension table depends only on the *set* of values: a font whose characters use the
same values gets the same table, whatever the order and multiplicity in the source (this is
what makes the second trip reproduce the table of the first). -/
theorem table_canonical {l l' : List Int} (h : ∀ x, x ∈ l ↔ x ∈ l') : table l = table l' := by
  simp only [table, sortDedup_canonical h]

/-- The table is zero followed by strictly ascending values. -/
theorem table_sorted (l : List Int) : (table l).head? = some 0 ∧ (sortDedup l).Pairwise (· < ·) :=
  ⟨rfl, sortDedup_sorted l⟩

/-- **index_preserved.** A character's width (height, depth, italic correction) after
normalisation — the table entry at the index stored for it — is the value it had before. -/
theorem index_preserved {v : Int} {vals : List Int} (h : v ∈ vals) :
    (table vals)[dimIndex v vals]? = some v :=
  C11.index_preserved h

/-- A value that was never pushed (zero heights, depths and italic corrections are not) gets
index 0, and entry 0 of every table is 0. -/
theorem index_absent {v : Int} {vals : List Int} (h : v ∉ vals) :
    dimIndex v vals = 0 ∧ (table vals)[0]? = some 0 :=
  C11.index_absent h

example : table [5, -3, 5, 0, 7] = [0, -3, 0, 5, 7] ∧ dimIndex 5 [5, -3, 5, 0, 7] = 3 ∧
    dimIndex 0 (nonZero [5, 0, 7]) = 0 := by decide

/-! ## The full property, and what of it is proved

    C11_full_statement :
      ∀ t0 : bytes, tftopl t0 and pltotf (tftopl t0) raise no warning →
        let t1 := pltotf (tftopl t0); let t2 := pltotf (tftopl t1)
        t1 = t2 ∧ no warning on the second trip ∧ sameFont t0 t1

  `pltotf`/`tftopl` include the PL printer, lexer and parser, the header, the parameters, the
  character table and the NEXTLARGER/VARCHAR checks, which are not modelled: that statement
  is checked by the correspondence harness only (K). What is proved above are its
  algorithmic ingredients: the lig/kern part of `sameFont` (`ligkern_meaning_preserved`),
  the lig/kern part of `t1 = t2` (`pack_idempotent`, `unpack_kerns_canonical`), and the
  dimension part of both (`index_preserved`, `table_canonical`, `dedup_sort_idempotent`),
  each under the stated hypotheses (`wf`: no label without a step — known finding C11-b;
  tables within 255/15/15/63 distinct values — beyond that C17's lossy `compress` applies). -/

end C11.Thm
