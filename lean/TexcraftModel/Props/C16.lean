import TexcraftModel.Lemmas.C16
import TexcraftModel.Lemmas.C16Seq
import TexcraftModel.Lemmas.C16Range

/-!
# C16 — property theorems

Only the statements that *are* the property live here (helper lemmas: `Lemmas/C16.lean`).

* `de_ser`            one operation: deserialising its bytes gives it back and leaves the rest
* `de_ser_seq`        sequences: same sequence, every byte consumed, no error
* `de_progress`, `deserialize_total`  arbitrary bytes: ops or one of the two documented errors;
                      every step consumes at least one byte, so the iterator terminates
* `var_remove_positions`, `var_remove_no_vars`, `var_remove_others`  the w/x/y/z rewrite
* `de_returns_values`, `ser_minimal_width`  arbitrary bytes: what is read is a value of the Rust
                      types, and the writer never uses more bytes than the reader consumed
* `normalize_bytes`, `normalize_idempotent`  the whole `dvitools normalize` pipeline
                      (bytes → ops → `VarRemover` → bytes) read back again
-/
namespace C16

/-! ## Serialise then deserialise -/

private theorem k4 {k : Nat} (h : k < 4) : k = 0 ∨ k = 1 ∨ k = 2 ∨ k = 3 := by omega

theorem de_ser (op : Op) (rest : List Nat) (hwf : op.WF) (hok : okBefore op rest) :
    de (ser op ++ rest) = .ok (some (op, rest)) := by
  cases op with
  | typesetChar c m =>
    simp only [Op.WF, fitsU32] at hwf
    simp only [ser]
    by_cases h : m = true ∧ c < 128
    · obtain ⟨hm, hc⟩ := h
      subst hm
      simp [hc, de, dePayload]
      omega
    · rw [if_neg h]
      obtain ⟨k, bs, hk, heq, hrd⟩ := u32var_spec (if m = true then 128 else 133) c hwf
      rw [heq]
      cases m <;> rcases k4 hk with rfl | rfl | rfl | rfl <;>
        simp [de, dePayload, hrd]
  | typesetRule h w m =>
    obtain ⟨hh, hw⟩ := hwf
    cases m <;>
      simp [ser, de, dePayload, List.append_assoc, rdI4_i32be, hh, hw]
  | noOp => simp [ser, de, dePayload]
  | beginPage ps prev =>
    obtain ⟨hl, hps, hprev⟩ := hwf
    have := rdI32s_flatten ps hps (i32be prev ++ rest)
    rw [hl] at this
    simp [ser, de, dePayload, List.append_assoc, this, rdI4_i32be, hprev]
  | endPage => simp [ser, de, dePayload]
  | push => simp [ser, de, dePayload]
  | pop => simp [ser, de, dePayload]
  | right i =>
    obtain ⟨k, bs, hk, heq, hrd⟩ := i32var_spec 143 i hwf
    simp only [ser]; rw [heq]
    rcases k4 hk with rfl | rfl | rfl | rfl <;> simp [de, dePayload, hrd]
  | move v => cases v <;> simp [ser, de, dePayload, varBase, varOfBase]
  | setVar v i =>
    obtain ⟨k, bs, hk, heq, hrd⟩ := i32var_spec (varBase v + 1) i hwf
    simp only [ser]; rw [heq]
    cases v <;> rcases k4 hk with rfl | rfl | rfl | rfl <;>
      simp [de, dePayload, varBase, varOfBase, hrd]
  | down i =>
    obtain ⟨k, bs, hk, heq, hrd⟩ := i32var_spec 157 i hwf
    simp only [ser]; rw [heq]
    rcases k4 hk with rfl | rfl | rfl | rfl <;> simp [de, dePayload, hrd]
  | enableFont u =>
    simp only [Op.WF, fitsU32] at hwf
    simp only [ser]
    by_cases h : u < 64
    · rw [if_pos h]
      have h1 : ¬ (250 ≤ 171 + u) := by omega
      have h2 : ¬ (171 + u < 171) := by omega
      have h3 : 171 + u < 235 := by omega
      simp only [List.cons_append, List.nil_append, de, h1, if_false, dePayload]
      repeat (first | rw [if_neg (by omega)] | rw [if_pos h3])
      simp
    · rw [if_neg h]
      obtain ⟨k, bs, hk, heq, hrd⟩ := u32var_spec 235 u hwf
      rw [heq]
      rcases k4 hk with rfl | rfl | rfl | rfl <;> simp [de, dePayload, hrd]
  | extension d =>
    obtain ⟨hl, _⟩ := hwf
    simp only [ser]
    have hmin : min d.length 4294967295 = d.length := by omega
    simp only [hmin, List.take_length]
    obtain ⟨k, bs, hk, heq, hrd⟩ := u32var_spec 239 d.length hl
    rw [heq]
    rcases k4 hk with rfl | rfl | rfl | rfl <;>
      simp [de, dePayload, List.append_assoc, hrd, rdBytes_take]
  | defineFont n c a d area name =>
    obtain ⟨hn, hc, ha, hd, hal, hnl, _, _⟩ := hwf
    simp only [ser]
    have h1 : strLen area = area.length := by unfold strLen; omega
    have h2 : strLen name = name.length := by unfold strLen; omega
    simp only [h1, h2, List.take_length]
    obtain ⟨k, bs, hk, heq, hrd⟩ := u32var_spec 243 n hn
    rw [heq]
    rcases k4 hk with rfl | rfl | rfl | rfl <;>
      simp [de, dePayload, List.append_assoc, hrd, rdU4_be4, hc, ha, hd, rdU1, rdBytes_take,
        fitsU32] <;> simp_all [fitsU32, rdU4_be4, rdU1, rdBytes_take]
  | preamble f n d m c =>
    obtain ⟨hf, hn, hd, hm, hcl, _⟩ := hwf
    simp only [ser]
    have h1 : strLen c = c.length := by unfold strLen; omega
    simp only [h1, List.take_length]
    simp_all [de, dePayload, List.append_assoc, rdU4_be4, rdU1, rdBytes_take, fitsU32]
  | beginPostamble fbp n d m lh lw ms np =>
    obtain ⟨h0, h1, h2, h3, h4, h5, h6, h7⟩ := hwf
    simp_all [ser, de, dePayload, List.append_assoc, rdI4_i32be, rdU4_be4, rdU2_be2, fitsU32]
  | endPostamble f p k =>
    obtain ⟨hf, hp⟩ := hwf
    simp only [okBefore] at hok
    simp [ser, de, dePayload, List.append_assoc, rdU1, rdI4_i32be, hp,
      strip223_replicate k rest hok]

/-- Every serialised operation occupies at least one byte. -/
theorem ser_ne_nil (op : Op) (hwf : op.WF) : ser op ≠ [] := by
  intro h
  have := de_ser op [] hwf (by cases op <;> simp [okBefore])
  rw [h] at this
  simp [de] at this

/-- Sequences: the `Deserializer` iterator returns exactly the operations that were serialised,
reports no error, and (since it stops only at the end of the data) consumes every byte. -/
theorem de_ser_seq (ops : List Op) (h : SeqWF ops) :
    deserialize (serAll ops) = (ops, none) := by
  unfold deserialize
  suffices ∀ fuel, ops.length < fuel → deAll fuel (serAll ops) = (ops, none) by
    apply this
    clear this
    induction ops with
    | nil => simp [serAll]
    | cons op ops ih =>
      obtain ⟨hwf, _, hs⟩ := h
      have := ih hs
      have hne := ser_ne_nil op hwf
      have : 0 < (ser op).length := List.length_pos_iff.mpr hne
      simp only [serAll, List.map_cons, List.flatten_cons, List.length_append, List.length_cons] at *
      omega
  intro fuel
  induction ops generalizing fuel with
  | nil =>
    intro hf
    cases fuel with
    | zero => omega
    | succ f => simp [serAll, deAll, de]
  | cons op ops ih =>
    intro hf
    obtain ⟨hwf, hok, hs⟩ := h
    cases fuel with
    | zero => omega
    | succ f =>
      have hde := de_ser op (serAll ops) hwf hok
      have : serAll (op :: ops) = ser op ++ serAll ops := by simp [serAll]
      rw [this]
      simp only [deAll, hde]
      rw [ih hs f (by simp at hf; omega)]

/-! ## Arbitrary bytes -/

theorem rdU_length {n : Nat} {b : List Nat} {u : Nat} {t : List Nat}
    (h : rdU n b = some (u, t)) : t.length ≤ b.length := by
  unfold rdU at h
  split at h
  all_goals first
    | (simp only [Option.some.injEq, Prod.mk.injEq] at h; obtain ⟨_, rfl⟩ := h; simp only [List.length_cons]; omega)
    | cases h

/-- The model's reader returns a value in every case — an operation with the unread tail, end of
data, or one of the two documented errors (there is no other constructor and no partiality:
`de` is a total function; every slice access of the Rust code is a `split_at_checked` here) —
and a successful read consumes at least the op code. This is what makes the iterator finite. -/
theorem de_progress (b : List Nat) (op : Op) (rest : List Nat)
    (h : de b = .ok (some (op, rest))) : ∃ opc t, b = opc :: t ∧ opc < 250 := by
  cases b with
  | nil => simp [de] at h
  | cons opc t =>
    refine ⟨opc, t, rfl, ?_⟩
    unfold de at h
    simp only at h
    split at h
    · cases h
    · omega

/-- Errors are exactly the documented ones and carry the offending op code. -/
theorem de_error (b : List Nat) (e : Err) (h : de b = .error e) :
    ∃ opc t, b = opc :: t ∧ ((250 ≤ opc ∧ e = .invalidOpCode opc) ∨ (opc < 250 ∧ e = .truncated opc)) := by
  cases b with
  | nil => simp [de] at h
  | cons opc t =>
    refine ⟨opc, t, rfl, ?_⟩
    unfold de at h
    simp only at h
    split at h
    · left; refine ⟨by assumption, ?_⟩; cases h; rfl
    · right
      refine ⟨by omega, ?_⟩
      split at h
      · cases h
      · cases h; rfl

/-! ## Removing the variables -/

/-- The tracker state that `Values` represents. -/
def Values.toTrack (s : Values) : Track :=
  let conv (t : StackValues) : Pos × Int × Int × Int × Int := ({ h := t.h, hc := t.hChars, v := t.v }, t.w, t.x, t.y, t.z)
  { pos := (conv s.top).1, w := s.top.w, x := s.top.x, y := s.top.y, z := s.top.z, f := s.f,
    stack := s.tail.map conv }

/-- Two tracker states that agree on everything a variable-free stream can observe. -/
def SamePos (a b : Track) : Prop :=
  a.pos = b.pos ∧ a.f = b.f ∧ a.stack.map (·.1) = b.stack.map (·.1)

/-- `Values::update` is the DVI tracker (so what `VarRemover` reads out of it is the real
value of the variable at that point). -/
theorem update_toTrack (s : Values) (op : Op) :
    (s.update op).toTrack = (s.toTrack.step op).1 := by
  cases op with
  | typesetChar c m => cases m <;> simp [Values.update, Track.step, Values.toTrack]
  | typesetRule h w m => cases m <;> simp [Values.update, Track.step, Values.toTrack]
  | pop =>
    cases hs : s.tail with
    | nil => simp [Values.update, Track.step, Values.toTrack, hs]
    | cons t rest => simp [Values.update, Track.step, Values.toTrack, hs]
  | move v => cases v <;> simp [Values.update, Track.step, Values.toTrack, StackValues.moveBy, StackValues.var]
  | setVar v i =>
    cases v <;> simp [Values.update, Track.step, Values.toTrack, StackValues.moveBy, StackValues.setVar]
  | _ => simp [Values.update, Track.step, Values.toTrack]

/-- One step of the remover against one step of the original, from related states. -/
theorem removeStep_sim (s : Values) (t : Track) (op : Op) (hrel : SamePos s.toTrack t) :
    let r := removeStep s op
    (s.toTrack.step op).2 = (t.step r.2).2 ∧ SamePos r.1.toTrack (t.step r.2).1 := by
  obtain ⟨hp, hf, hst⟩ := hrel
  have hu := update_toTrack s op
  cases op with
  | typesetChar c m =>
    cases m <;> simp_all [removeStep, Track.step, SamePos]
  | typesetRule h w m =>
    cases m <;> simp_all [removeStep, Track.step, SamePos]
  | pop =>
    simp only [removeStep, hu]
    cases h1 : s.toTrack.stack with
    | nil =>
      have : t.stack = [] := by simpa [h1] using hst.symm
      simp [Track.step, h1, this, SamePos, hp, hf]
    | cons a rest =>
      cases h2 : t.stack with
      | nil => simp [h1, h2] at hst
      | cons b rest2 =>
        obtain ⟨pa, wa, xa, ya, za⟩ := a
        obtain ⟨pb, wb, xb, yb, zb⟩ := b
        simp [h1, h2] at hst
        simp [Track.step, h1, h2, SamePos, hf, hst]
  | move v =>
    cases v <;>
      simp_all [removeStep, Track.step, SamePos, Values.update, Values.toTrack,
        StackValues.moveBy, StackValues.var]
  | setVar v i =>
    cases v <;>
      simp_all [removeStep, Track.step, SamePos, Values.update, Values.toTrack,
        StackValues.moveBy, StackValues.setVar, StackValues.var]
  | _ => simp_all [removeStep, Track.step, SamePos]

theorem varRemoveFrom_marks (ops : List Op) (s : Values) (t : Track) (hrel : SamePos s.toTrack t) :
    marksFrom t (varRemoveFrom s ops) = marksFrom s.toTrack ops := by
  induction ops generalizing s t with
  | nil => simp [varRemoveFrom, marksFrom]
  | cons op ops ih =>
    obtain ⟨h1, h2⟩ := removeStep_sim s t op hrel
    have hu := update_toTrack s op
    have hr1 : (removeStep s op).1 = s.update op := by
      unfold removeStep; cases op <;> rfl
    simp only [varRemoveFrom, marksFrom]
    rw [← h1]
    have := ih (removeStep s op).1 _ h2
    rw [hr1, hu] at this
    rw [hr1, this]

/-- **Positions are preserved**: the page position (integer part and the (char, font) list whose
widths are added to `h`), the vertical position and the font of every typeset character and
rule are the same before and after the rewrite — for every operation sequence, balanced or
not, across pages. -/
theorem var_remove_positions (ops : List Op) : positions (varRemove ops) = positions ops := by
  unfold positions varRemove
  have := varRemoveFrom_marks ops {} {} (by simp [SamePos, Values.toTrack])
  simpa [Values.toTrack] using this

theorem varRemoveFrom_length (ops : List Op) (s : Values) :
    (varRemoveFrom s ops).length = ops.length := by
  induction ops generalizing s with
  | nil => rfl
  | cons op ops ih => simp [varRemoveFrom, ih]

/-- **No variables remain.** -/
theorem var_remove_no_vars (ops : List Op) : ∀ op ∈ varRemove ops, op.isVar = false := by
  unfold varRemove
  generalize ({} : Values) = s
  induction ops generalizing s with
  | nil => simp [varRemoveFrom]
  | cons op ops ih =>
    intro o ho
    simp only [varRemoveFrom, List.mem_cons] at ho
    rcases ho with rfl | ho
    · cases op with
      | move v => cases v <;> simp [removeStep, Op.isVar]
      | setVar v i => cases v <;> simp [removeStep, Op.isVar]
      | _ => simp [removeStep, Op.isVar]
    · exact ih _ o ho

/-- **Every other operation is unchanged, in place**: the output has the same length and
differs from the input only at the indices that held a `Move`/`SetVar`. -/
theorem var_remove_others (ops : List Op) :
    (varRemove ops).length = ops.length ∧
    ∀ i (h : i < ops.length), ops[i].isVar = false → (varRemove ops)[i]? = some ops[i] := by
  refine ⟨varRemoveFrom_length ops {}, ?_⟩
  unfold varRemove
  generalize ({} : Values) = s
  induction ops generalizing s with
  | nil => intro i h; simp at h
  | cons op ops ih =>
    intro i h hv
    cases i with
    | zero =>
      simp only [List.getElem_cons_zero] at hv
      cases op <;> simp_all [varRemoveFrom, removeStep, Op.isVar]
    | succ j =>
      simp only [List.getElem_cons_succ] at hv
      simp only [varRemoveFrom, List.getElem?_cons_succ, List.getElem_cons_succ]
      exact ih _ j (by simpa using h) hv

/-! ## Arbitrary bytes, continued: values and widths -/

/-- Whatever `de` returns from a byte string is a value of the Rust field types (so it is in the
domain of `de_ser`), the unread tail is again a byte string, and an `EndPostamble` has absorbed
every 223 byte after it. -/
theorem de_returns_values (b : List Nat) (hb : bytesOK b) (op : Op) (rest : List Nat)
    (h : de b = .ok (some (op, rest))) : op.WF ∧ bytesOK rest ∧ okBefore op rest :=
  let ⟨h1, h2, h3, _⟩ := de_good hb h
  ⟨h1, h2, h3⟩

/-- **Minimal-width encodings**: for every encoding of an operation that the reader accepts
(1-, 2-, 3- or 4-byte operand forms, long forms of small characters and fonts), the writer's
encoding of that operation is at most as long. -/
theorem ser_minimal_width (b : List Nat) (hb : bytesOK b) (op : Op) (rest : List Nat)
    (h : de b = .ok (some (op, rest))) : (ser op).length + rest.length ≤ b.length :=
  (de_good hb h).2.2.2

/-! ## The `normalize` pipeline on bytes -/

/-- **`dvitools normalize`, end to end.** Take any byte string; let `ops` be what the
`Deserializer` iterator reads from it (up to the first error, if any). If no `EndPostamble` in
`ops` is directly followed by `EnableFont 52` (finding C16-a: that pair cannot be written back),
then the bytes written by `serialize(VarRemover(ops))` deserialise — completely and without
error — to exactly `VarRemover(ops)`, which contains no w/x/y/z operation and places every
character and rule where `ops` placed it, in the same font. -/
theorem normalize_bytes (b : List Nat) (hb : bytesOK b) (ops : List Op) (e : Option Err)
    (hd : deserialize b = (ops, e)) (h52 : Post52Free ops) :
    deserialize (serAll (varRemove ops)) = (varRemove ops, none)
      ∧ positions (varRemove ops) = positions ops
      ∧ (∀ op ∈ varRemove ops, op.isVar = false) := by
  have hwf : AllWF ops := deAll_allWF _ b ops e hb hd
  have hwf' : AllWF (varRemove ops) := varRemoveFrom_allWF ops {} Values.fits_init hwf
  have hp' : Post52Free (varRemove ops) := varRemoveFrom_post52Free ops {} h52
  exact ⟨de_ser_seq _ (seqWF_of _ hwf' hp'), var_remove_positions ops, var_remove_no_vars ops⟩

/-- Normalising twice is normalising once (operation level and, under the hypothesis of
`normalize_bytes`, byte level). -/
theorem normalize_idempotent (ops : List Op) : varRemove (varRemove ops) = varRemove ops :=
  varRemoveFrom_noVars _ _ (var_remove_no_vars ops)

/-! ## When the unbounded positions of the model are exact -/

/-- `dvi::Values` adds on `i32`. If the movements of a stream sum, in absolute value, to less than
2^31 (`runMag`, evaluated by the driver per case), then after every prefix of the stream every
`h` and `v` held by the tracker — current level and every stacked level — is an `i32`: no `+=`
of the Rust code overflows, so the model's `Int` positions *are* the code's. (Beyond that bound
a checked build panics and an unchecked one wraps; such streams are outside the quantifier.) -/
theorem positions_within_i32 (ops : List Op) (h : runMag {} ops < 2147483648) :
    ∀ k, k ≤ ops.length →
      let s := (ops.take k).foldl Values.update {}
      (fitsI32 s.top.h ∧ fitsI32 s.top.v) ∧ ∀ t ∈ s.tail, fitsI32 t.h ∧ fitsI32 t.v := by
  intro k hk
  have h0 : ({} : Values).Within 0 := by
    refine ⟨⟨by decide, by decide⟩, ?_⟩
    intro t ht; cases ht
  have := run_within ops {} 0 h0 k hk
  simp only [Nat.zero_add] at this
  obtain ⟨⟨a, b⟩, c⟩ := this
  refine ⟨⟨?_, ?_⟩, ?_⟩
  · unfold fitsI32; omega
  · unfold fitsI32; omega
  · intro t ht
    obtain ⟨c1, c2⟩ := c t ht
    unfold fitsI32; omega

/-! ## Non-vacuity: the hypotheses are met by concrete, non-trivial instances -/

example : SeqWF [.preamble 2 25400000 473628672 1000 [84, 101, 88], .beginPage [1,0,0,0,0,0,0,0,0,0] (-1),
    .push, .right (-8388609), .setVar .W 32768, .typesetChar 200 true, .move .W, .pop,
    .typesetRule 26214 (-65536) false, .endPage, .endPostamble 2 100 4] := by
  simp [SeqWF, Op.WF, okBefore, fitsI32, fitsU32, bytesOK, serAll, ser]

/-- The boundary that the `okBefore`/`SeqWF` hypothesis excludes is real: an `EndPostamble`
followed by `EnableFont 52` does not round-trip (the 223 byte is absorbed). -/
example : deserialize (serAll [.endPostamble 2 0 0, .enableFont 52]) = ([.endPostamble 2 0 1], none) := by
  decide

example : positions (varRemove [.setVar .W 5, .push, .setVar .Y 3, .typesetChar 65 true, .pop, .move .W,
    .typesetChar 66 false]) = positions [.setVar .W 5, .push, .setVar .Y 3, .typesetChar 65 true, .pop, .move .W,
    .typesetChar 66 false] := by decide


def exampleBytes : List Nat :=
  [247, 2, 0, 0, 0, 1, 0, 0, 0, 1, 0, 0, 3, 232, 0,
   139, 0,0,0,1, 0,0,0,0, 0,0,0,0, 0,0,0,0, 0,0,0,0, 0,0,0,0, 0,0,0,0, 0,0,0,0, 0,0,0,0, 0,0,0,0, 255,255,255,255,
   141, 149, 0, 5, 128, 65, 147, 235, 52, 137, 0,0,0,1, 0,0,0,2,
   139, 0,0,0,2, 0,0,0,0, 0,0,0,0, 0,0,0,0, 0,0,0,0, 0,0,0,0, 0,0,0,0, 0,0,0,0, 0,0,0,0, 0,0,0,0, 0,0,0,15,
   142, 152, 66, 140, 249, 2, 0,0,0,0, 223, 223, 223, 223]

/-- `normalize_bytes` on a concrete stream with non-minimal encodings, variables, an unbalanced
push across a page start and trailing padding: the hypotheses hold, and the output differs from
the input bytes. -/
example : bytesOK exampleBytes ∧ (deserialize exampleBytes).2 = none ∧
    Post52Free (deserialize exampleBytes).1 ∧
    serAll (varRemove (deserialize exampleBytes).1) ≠ exampleBytes := by
  decide +kernel

/-- `positions_within_i32` is not vacuous at the extremes, and its bound is sharp: one more unit
and a position leaves `i32`. -/
example : runMag {} [.right 2147483647, .push, .setVar .W (-2147483647), .move .W, .pop, .down (-5)] = 6442450946 := by
  decide +kernel
example : runMag {} [.right 1073741823, .down (-1073741824)] < 2147483648 := by decide +kernel
example : ¬ fitsI32 (([.right 2147483647, .right 1] : List Op).foldl Values.update {}).top.h := by
  decide +kernel

end C16
