import TexcraftModel.Model.C19
import TexcraftModel.Lemmas.C19
import TexcraftModel.Lemmas.C19Names
import TexcraftModel.Lemmas.C19Deep

/-!
# C19 — `\input`, `\endinput` and `\read` treat files as lines standing in place

Property statements only; helper lemmas are in `Lemmas/C19.lean`.
M = `run` (the source stack), `readFile`, `opStep false`; S = `inlineToks` / `inline`
(`keep = true`: TeX), `texReadFile`, `opStep true`.
-/

namespace C19

/-- **\input inlines.** For every file system, every main file and every nesting budget
`d ≤ 99` (main + 99 nested files = the documented 100 levels) such that the tree is
well-formed (every `\input` names an existing file, nesting at most `d`), the source-stack
machine halts, and what it delivers is what it delivers for the inlined program — a single
file, no `\input`, the lines of each file standing where its name ended, the rest of the
`\input` line (and pending macro tokens) resuming after the file — run against the empty
file system. Both equal `inlineToks false`. Holds for all fuel above a bound. -/
theorem input_inlines (fs : FS) (d : Nat) (main : File) (hd : d ≤ 99) (hwf : WF fs d main = true) :
    ∃ N, ∀ fuel, N ≤ fuel →
      run fs fuel main = run [] fuel (inline false fs d main) ∧
      run fs fuel main = .ok (inlineToks false fs d main) := by
  obtain ⟨N1, h1⟩ := run_wf fs d main hd hwf
  have hwf2 : WF [] 0 (inline false fs d main) = true := by
    simp [WF, inline, wfLines, wfItems_plain]
  obtain ⟨N2, h2⟩ := run_wf [] 0 (inline false fs d main) (by omega) hwf2
  refine ⟨max N1 N2, ?_⟩
  intro fuel hf
  have e1 := h1 fuel (by omega)
  have e2 := h2 fuel (by omega)
  refine ⟨?_, e1⟩
  rw [e1, e2]
  simp [inlineToks, inline, denLines, denItems_plain]

/-- Non-vacuity: `X\input a Y` / `Z` with `a` = `B\input b C` / `D`, `b` = `E`. -/
example :
    let fs : FS := [(0, [[.atom (.tok (.chr 66)), .atom (.input 1), .atom (.tok (.chr 67))], [.atom (.tok (.chr 68))]]),
                    (1, [[.atom (.tok (.chr 69))]])]
    let main : File := [[.atom (.tok (.chr 88)), .atom (.input 0), .atom (.tok (.chr 89))], [.atom (.tok (.chr 90))]]
    WF fs 2 main = true ∧
      run fs 40 main = .ok [.chr 88, .chr 66, .chr 69, .chr 67, .chr 68, .chr 89, .chr 90] := by
  decide +kernel

/-- **Which file.** The file that `\input name` / `\openin n=name` reads is the one TeX reads:
the written name itself if its last component has an extension, else the name with `.tex`
appended — one candidate, never the bare name next to `name.tex`, never a replaced or doubled
extension. (`resolveCode` transcribes `FileLocation::parse` + `determine_full_path` as
repaired by fixes/C19-c.patch; before the repair `a.tex.tex` read `a.tex`: finding C19-c.)
Consequently every run sees the same bound file system as the specification. -/
theorem name_resolution_is_tex (w : Name) : resolveCode w = resolveTeX w :=
  resolveCode_eq_resolveTeX w

theorem bound_files_are_tex {α : Type} (disk : List (Name × α)) (written : List (Nat × Name)) :
    bindNames resolveCode disk written = bindNames resolveTeX disk written := by
  have : resolveCode = resolveTeX := funext resolveCode_eq_resolveTeX
  rw [this]

/-- `a` ↦ `a.tex`; `a.tex`, `a.tex.tex`, `a.TEX`, `a.` ↦ themselves; `d.d/a` ↦ `d.d/a.tex`;
with `a`, `a.tex` and `a.tex.tex` all on the disk, `\input a` is bound to `a.tex`. -/
example :
    resolveTeX [97] = [97, 46, 116, 101, 120] ∧
    resolveTeX [97, 46, 116, 101, 120] = [97, 46, 116, 101, 120] ∧
    resolveCode [97, 46, 116, 101, 120, 46, 116, 101, 120] = [97, 46, 116, 101, 120, 46, 116, 101, 120] ∧
    resolveCode [97, 46, 84, 69, 88] = [97, 46, 84, 69, 88] ∧
    resolveCode [97, 46] = [97, 46] ∧
    resolveCode [100, 46, 100, 47, 97] = [100, 46, 100, 47, 97, 46, 116, 101, 120] ∧
    bindNames resolveCode [([97], 1), ([97, 46, 116, 101, 120], 2), ([97, 46, 116, 101, 120, 46, 116, 101, 120], 3)]
      [(0, [97])] = [(0, 2)] := by decide

/-- **The limit (1).** `\input` of an existing file with 100 or more sources below the current
one is the error `too many input levels`; the state is otherwise untouched. -/
theorem input_limit (fs : FS) (f : Nat) (file : File) (s : Source) (below : List Source) (out : List Tok)
    (hf : lookup fs f = some file) (h : 100 ≤ below.length) :
    exec fs (.input f) s below out = ⟨s :: below, out, .tooDeep⟩ := by
  have : below.length + 1 > maxSources := by simp [maxSources]; omega
  simp [exec, hf, this]

/-- **The limit (2).** With at most 99 sources below, the file is pushed as a fresh source
(no pending tokens, all its lines unread) on top of the untouched suspended ones. -/
theorem input_below_limit (fs : FS) (f : Nat) (file : File) (s : Source) (below : List Source) (out : List Tok)
    (hf : lookup fs f = some file) (h : below.length ≤ 99) :
    exec fs (.input f) s below out = ⟨⟨[], [], file⟩ :: s :: below, out, .running⟩ := by
  have : ¬ (below.length + 1 > maxSources) := by simp [maxSources]; omega
  simp [exec, hf, this]

/-- **The limit (3).** The stack never grows beyond 101 sources (the VM's empty default
source, the main file and 99 nested files). -/
theorem stack_bounded (fs : FS) (st : St) (h : st.srcs.length ≤ 101) : (step fs st).srcs.length ≤ 101 := by
  have hexec : ∀ (a : Atom) (s : Source) (below : List Source) (out : List Tok),
      below.length + 1 ≤ 101 → (exec fs a s below out).srcs.length ≤ 101 := by
    intro a s below out hb
    cases a with
    | tok t => simpa [exec] using hb
    | endinput => simpa [exec] using hb
    | input f =>
      simp only [exec]
      cases lookup fs f with
      | none => simpa using hb
      | some file =>
        by_cases hd : below.length + 1 > maxSources
        · simpa [hd] using hb
        · simp [hd]; simp [maxSources] at hd; omega
  obtain ⟨srcs, out, status⟩ := st
  cases status with
  | running =>
    cases srcs with
    | nil => simp [step]
    | cons s below =>
      obtain ⟨pending, cur, rest⟩ := s
      simp only [List.length_cons] at h
      cases pending with
      | cons a p => simpa [step] using hexec a _ below out h
      | nil =>
        cases cur with
        | cons it c =>
          cases it with
          | atom a => simpa [step] using hexec a _ below out h
          | call body => simpa [step] using h
        | nil =>
          cases rest with
          | cons l ls => simpa [step] using h
          | nil =>
            cases below with
            | nil => simp [step]
            | cons b bs => simp [step]; simp at h; omega
  | halted => simpa [step] using h
  | notFound => simpa [step] using h
  | tooDeep => simpa [step] using h

/-- A file that inputs itself runs into the limit: 99 copies are opened (each prints `A`),
the 100th `\input` is refused. -/
example :
    run [(0, [[.atom (.tok (.chr 65)), .atom (.input 0)]])] 1000 [[.atom (.input 0)]]
      = .tooDeep (List.replicate 99 (.chr 65)) := by
  decide +kernel

/-- **`\endinput`, partial** (known finding C19-a). If every `\endinput` is the last token of
its line (in a macro body: the call is the last item of its line), dropping the rest of the
line (`Lexer::end`) and finishing it (TeX §362) are the same, so the machine delivers the
TeX inlining. -/
theorem endinput_finishes_line_partial (fs : FS) (d : Nat) (main : File) (hd : d ≤ 99)
    (hwf : WF fs d main = true) (hmain : endLastLines main = true) (hfs : endLastFS fs = true) :
    ∃ N, ∀ fuel, N ≤ fuel → run fs fuel main = .ok (inlineToks true fs d main) := by
  obtain ⟨N, h⟩ := run_wf fs d main hd hwf
  refine ⟨N, fun fuel hf => ?_⟩
  rw [h fuel hf]
  simp [inlineToks, denFile_endLast fs hfs d, denLines_endLast _ main hmain]

/-- The full statement, which the code violates. -/
def endinput_finishes_line_full_statement : Prop :=
  ∀ (fs : FS) (d : Nat) (main : File), d ≤ 99 → WF fs d main = true →
    ∃ N, ∀ fuel, N ≤ fuel → run fs fuel main = .ok (inlineToks true fs d main)

/-- Witness `A\endinput B` ⏎ `C`: the machine delivers `A`, TeX `A B␣` (C19-a). -/
example :
    let main : File := [[.atom (.tok (.chr 65)), .atom .endinput, .atom (.tok (.chr 66)), .atom (.tok .sp)],
                        [.atom (.tok (.chr 67)), .atom (.tok .sp)]]
    WF [] 0 main = true ∧ run [] 20 main = .ok [.chr 65] ∧
      inlineToks true [] 0 main = [.chr 65, .chr 66, .sp] ∧ endLastLines main = false := by
  decide +kernel

theorem endinput_finishes_line_full_statement_false : ¬ endinput_finishes_line_full_statement := by
  intro h
  obtain ⟨N, hN⟩ := h [] 0 [[.atom (.tok (.chr 65)), .atom .endinput, .atom (.tok (.chr 66))]] (by omega) (by decide)
  obtain ⟨N', hN'⟩ := run_wf [] 0 [[.atom (.tok (.chr 65)), .atom .endinput, .atom (.tok (.chr 66))]] (by omega) (by decide)
  have a := hN (max N N') (by omega)
  have b := hN' (max N N') (by omega)
  rw [a] at b
  revert b
  decide

/-- Non-vacuity of the hypotheses of `endinput_finishes_line_partial`. -/
example : endLastLines [[.atom (.tok (.chr 65)), .atom .endinput], [.atom (.tok (.chr 67))]] = true ∧
    endLastFS [(0, [[.call [.tok (.chr 72), .endinput]]])] = true := by decide

/-- **`\read` delivers one brace-balanced group of lines.** Whatever `\read` returns from a
file is balanced; it consists of whole lines of the file, except that a line with an
unmatched `}` is cut before that brace (the rest of that line is discarded); the stream keeps
exactly the untouched lines and is dropped when none is left. -/
theorem read_one_group (ls : List TLine) (toks : List Tok) (rem : Option (List TLine))
    (h : readFile ls 0 [] = .ok toks rem) :
    Balanced toks ∧
    ∃ (taken rest : List TLine), ls = taken ++ rest ∧
      (rem = if rest.isEmpty then none else some rest) ∧
      (toks = taken.flatten ∨
        ∃ (full : List TLine) (p q : List Tok), taken = full ++ [p ++ Tok.eg :: q] ∧
          toks = full.flatten ++ p) := by
  have := readFile_spec ls 0 [] rfl toks rem h
  simpa [Balanced] using this

/-- **…and only one.** `\read` stops at the first line end at which the braces balance:
after any smaller positive number `k` of the lines it consumed a brace is still open.
(`ls.length - remLen rem` is the number of lines consumed.) -/
theorem read_minimal (ls : List TLine) (toks : List Tok) (rem : Option (List TLine))
    (h : readFile ls 0 [] = .ok toks rem) (k : Nat) (hk : 0 < k) (hlt : k < ls.length - remLen rem) :
    ∃ e, depthAfter (ls.take k).flatten 0 = some (e + 1) := by
  simpa using readFile_minimal ls 0 [] rfl toks rem h k hk hlt

/-- Non-vacuity: `1{` / `2` / `3}` / `4` gives `1{ 2 3} ` and leaves the last line. -/
example : readFile [[.chr 49, .bg, .sp], [.chr 50, .sp], [.chr 51, .eg, .sp], [.chr 52, .sp]] 0 []
    = .ok [.chr 49, .bg, .sp, .chr 50, .sp, .chr 51, .eg, .sp] (some [[.chr 52, .sp]]) := by decide

/-- **`\read` defines the target as a parameterless macro** holding exactly the tokens read
(from the lines as the lexer holds them under the current `\endlinechar`): a later use
delivers `[`, those tokens, `]`; the stream keeps the untouched lines (`afterRead`). -/
theorem read_defines_macro (rfs : List (Nat × List RawLine)) (st : RSt) (g : Bool) (n : Nat) (x : Nat)
    (slots : List Slot) (toks : List Tok) (rem : Option (List TLine))
    (hrun : st.status = .running) (hopen : takeFile st.streams n = some slots)
    (hread : readFile (slots.map (mat true st.elc)) 0 [] = .ok toks rem) :
    let st' := opStep false rfs st (.read g n x)
    st'.status = .running ∧
      st'.streams = st.streams.set n (rem.map (fun r => afterRead st.elc slots r.length)) ∧
      (opStep false rfs st' (.use x)).out = st.out ++ [chrL] ++ toks ++ [chrR] := by
  obtain ⟨streams, term, macros, saved, elc, out, status⟩ := st
  simp only at hrun hopen hread
  subst hrun
  cases g <;> simp [opStep, hopen, hread, lookup, defMacro]

/-- **Scope of the definition.** Without `\global` the macro defined by `\read` inside a group
is forgotten at the end of the group (the meaning from before the group returns); with
`\global` it survives the end of every enclosing group. -/
theorem read_local_in_group (tex : Bool) (rfs : List (Nat × List RawLine)) (st : RSt) (n : Int) (x : Nat)
    (hrun : st.status = .running)
    (hok : (opStep tex rfs (opStep tex rfs st .bgroup) (.read false n x)).status = .running) :
    (opStep tex rfs (opStep tex rfs (opStep tex rfs st .bgroup) (.read false n x)) .egroup).macros
      = st.macros := by
  obtain ⟨streams, term, macros, saved, elc, out, status⟩ := st
  simp only at hrun
  subst hrun
  simp only [opStep] at hok ⊢
  cases ht : takeFile streams n with
  | none =>
    simp only [ht] at hok ⊢
    cases hr : readTerm (term.map (attach elc)) 0 [] with
    | exhausted => simp [hr] at hok
    | ok toks term' => simp [defMacro]
  | some slots =>
    simp only [ht] at hok ⊢
    cases hr : (if tex then texReadFile (slots.map (mat true elc)) 0 [] else readFile (slots.map (mat true elc)) 0 []) with
    | unmatched => simp [hr] at hok
    | ok toks rem => simp [defMacro]

theorem read_global_survives_group (tex : Bool) (rfs : List (Nat × List RawLine)) (st : RSt) (n : Int) (x : Nat)
    (hrun : st.status = .running)
    (hok : (opStep tex rfs (opStep tex rfs st .bgroup) (.read true n x)).status = .running) :
    lookup (opStep tex rfs (opStep tex rfs (opStep tex rfs st .bgroup) (.read true n x)) .egroup).macros x
      = lookup (opStep tex rfs (opStep tex rfs st .bgroup) (.read true n x)).macros x ∧
    (lookup (opStep tex rfs (opStep tex rfs st .bgroup) (.read true n x)).macros x).isSome := by
  obtain ⟨streams, term, macros, saved, elc, out, status⟩ := st
  simp only at hrun
  subst hrun
  simp only [opStep] at hok ⊢
  cases ht : takeFile streams n with
  | none =>
    simp only [ht] at hok ⊢
    cases hr : readTerm (term.map (attach elc)) 0 [] with
    | exhausted => simp [hr] at hok
    | ok toks term' => simp [defMacro, lookup]
  | some slots =>
    simp only [ht] at hok ⊢
    cases hr : (if tex then texReadFile (slots.map (mat true elc)) 0 [] else readFile (slots.map (mat true elc)) 0 []) with
    | unmatched => simp [hr] at hok
    | ok toks rem => simp [defMacro, lookup]

/-- **`\endlinechar` and read lines.** Every line that a `\read` consumes ends with the token of
the `\endlinechar` in force *at that `\read`* (nothing if it is negative or the line ends in a
comment), whatever was in force when earlier lines of the stream were read: the lines the
reader works on are `attach e raw`. (Describes `Lexer::next` as repaired by
fixes/C19-d.patch; the unrepaired lexer is `mat false`, which differs as soon as
`freshSlots` fails — witness below.) -/
theorem endlinechar_on_read_lines (e : Elc) (slots : List Slot) :
    slots.map (mat true e) = slots.map (fun s => attach e s.raw) := by
  apply List.map_congr_left
  intro s _
  obtain ⟨loaded, raw⟩ := s
  cases loaded <;> simp [mat]

/-- `1`/`2`/`3`: `\read`, `\endlinechar=`*`, `\read`: the second line is `2*` for the model and
for TeX; the unrepaired lexer (which had started line 2 during the first `\read`) sees `2␣`:
finding C19-d. -/
example :
    let rfs : List (Nat × List RawLine) := [(0, [⟨[.chr 49], some [.sp]⟩, ⟨[.chr 50], some [.sp]⟩, ⟨[.chr 51], some [.sp]⟩])]
    let ops : List Op := [.openin 0 0, .read false 0 100, .setElc (.other 42), .read false 0 101, .use 101]
    (runOps false rfs [] ops).out = [chrL, .chr 50, .chr 42, chrR] ∧
    (runOps true rfs [] ops).out = [chrL, .chr 50, .chr 42, chrR] ∧
    (∃ slots, takeFile (runOps false rfs [] (ops.take 3)).streams 0 = some slots ∧
      freshSlots (.other 42) slots = false ∧ (slots.map (mat false (.other 42))).head? = some [.chr 50, .sp]) := by
  refine ⟨by decide, by decide, ?_⟩
  exact ⟨_, rfl, by decide, by decide⟩

/-- **`\ifeof`, partial** (known finding C19-b). Whenever the model's `\read` leaves the
stream open (a further real line remains), TeX's `\read` (§485–§486) returns the same tokens
and the same remaining lines, and in both the stream stays open (`\ifeof` false). -/
theorem ifeof_after_appended_line_partial (ls : List TLine) (toks : List Tok) (rem : List TLine)
    (h : readFile ls 0 [] = .ok toks (some rem)) :
    texReadFile ls 0 [] = .ok toks (some rem) :=
  readFile_tex_open ls 0 [] toks rem h

/-- **Every interleaving, partial** (known finding C19-b). For every script of `\openin`,
`\read`, `\global\read`, `\ifeof`, `\closein`, `\endlinechar` changes, groups and macro uses on
the 16 streams, every file system and terminal: if along the model's run no `\read` leaves its
stream without a further real line (or fails) and no empty file is opened (`safeRun`,
decidable), the model and TeX
(§485–§486) end in the same state — same output (so every `\ifeof` answered alike), same
streams, same macros, same status. -/
theorem interleavings_agree_with_tex_partial (rfs : List (Nat × List RawLine)) (term : List RawLine)
    (ops : List Op) (h : safeRun rfs (initR term) ops = true) :
    runOps false rfs term ops = runOps true rfs term ops :=
  foldl_agree rfs ops (initR term) (initR_noEmpty term) h

/-- Non-vacuity: two streams on a three-line file, interleaved reads, an `\ifeof`, a close. -/
example :
    let f : List RawLine := [⟨[.chr 49], some [.sp]⟩, ⟨[.chr 50, .bg], some [.sp]⟩, ⟨[.chr 51, .eg], some [.sp]⟩,
      ⟨[.chr 52], some [.sp]⟩, ⟨[.chr 53], some [.sp]⟩]
    safeRun [(0, f)] (initR [])
      [.openin 3 0, .setElc (.other 42), .openin 15 0, .read false 3 100, .ifeof 3, .bgroup, .read true 15 101,
       .read false 15 100, .egroup, .use 100, .closein 3, .ifeof 3, .ifeof 15] = true := by
  decide +kernel

/-- The empty file: both deliver `\par` and close the stream. -/
theorem read_empty_file : readFile (ensureNewline []) 0 [] = texReadFile [] 0 [] := by decide

/-- The full statement, which the code violates. -/
def ifeof_after_appended_line_full_statement : Prop :=
  ∀ (ls : List TLine), readFile (ensureNewline ls) 0 [] = texReadFile ls 0 []

/-- Witness: a one-line file `A`. After one `\read` the model has dropped the stream
(`\ifeof` true) while TeX keeps it open; TeX's second `\read` returns `\par` and closes
(C19-b). -/
theorem ifeof_after_appended_line_full_statement_false : ¬ ifeof_after_appended_line_full_statement := by
  intro h
  have := h [[.chr 65, .sp]]
  revert this
  decide

example :
    (runOps false [(0, [⟨[.chr 65], some [.sp]⟩])] [] [.openin 0 0, .read false 0 100, .ifeof 0]).out = [chrT] ∧
    (runOps true [(0, [⟨[.chr 65], some [.sp]⟩])] [] [.openin 0 0, .read false 0 100, .ifeof 0]).out = [chrF] ∧
    (runOps true [(0, [⟨[.chr 65], some [.sp]⟩])] [] [.openin 0 0, .read false 0 100, .read false 0 101, .use 101, .ifeof 0]).out
      = [chrL, .par, chrR, chrT] := by decide

/-! ## Deepening round: the two pinned deviations exactly, and the input-stack view -/

/-- **C19-b, exactly.** On every non-empty list of lines, for every brace depth and
accumulator, the model's `\read` is TeX's `\read` (§485–§486) followed by one extra action:
a stream that is left open on *zero* real lines is closed at once (`closeEmpty`). Same
tokens, same error, same remaining lines in every other case. (The full statement
`ifeof_after_appended_line_full_statement` fails exactly because of `closeEmpty`.) -/
theorem read_is_tex_read_closing_early (ls : List TLine) (d : Nat) (acc : List Tok) (h : ls ≠ []) :
    readFile ls d acc = closeEmpty (texReadFile ls d acc) :=
  readFile_eq_closeEmpty_tex ls d acc h

/-- Consequences: whenever TeX's `\read` succeeds so does the model's, with the same tokens;
they differ only in `some []` versus `none`. -/
theorem read_tokens_are_tex_tokens (ls : List TLine) (h : ls ≠ []) (toks : List Tok) (rem : Option (List TLine))
    (ht : texReadFile ls 0 [] = .ok toks rem) :
    ∃ rem', readFile ls 0 [] = .ok toks rem' ∧ (rem' = rem ∨ (rem = some [] ∧ rem' = none)) := by
  rw [read_is_tex_read_closing_early ls 0 [] h, ht]
  cases rem with
  | none => exact ⟨none, rfl, Or.inl rfl⟩
  | some r =>
    cases r with
    | nil => exact ⟨none, rfl, Or.inr ⟨rfl, rfl⟩⟩
    | cons a b => exact ⟨some (a :: b), rfl, Or.inl rfl⟩

example : readFile [[.chr 65, .sp]] 0 [] = closeEmpty (texReadFile [[.chr 65, .sp]] 0 []) ∧
    texReadFile [[.chr 65, .sp]] 0 [] = .ok [.chr 65, .sp] (some []) := by decide

/-- **C19-a, exactly.** For every well-formed tree (no hypothesis on where `\endinput` stands)
the machine delivers what *TeX* delivers for the program in which the rest of the line after
every `\endinput` (and after every macro call whose body holds one) has been deleted
(`truncLines`, `truncFS`): `Lexer::end` is TeX's `\endinput` plus that deletion and nothing
else. The truncated program satisfies the hypothesis of `endinput_finishes_line_partial`. -/
theorem endinput_is_tex_on_truncated_program (fs : FS) (d : Nat) (main : File) (hd : d ≤ 99)
    (hwf : WF fs d main = true) :
    (∃ N, ∀ fuel, N ≤ fuel →
      run fs fuel main = .ok (inlineToks true (truncFS fs) d (truncLines main))) ∧
    endLastLines (truncLines main) = true := by
  refine ⟨?_, endLast_truncLines main⟩
  obtain ⟨N, h⟩ := run_wf fs d main hd hwf
  refine ⟨N, fun fuel hf => ?_⟩
  rw [h fuel hf]
  simp [inlineToks, denFile_trunc fs d, denLines_trunc]

/-- `A\endinput B` ⏎ `C` is truncated to `A\endinput` ⏎ `C`, on which TeX delivers `A`. -/
example :
    truncLines [[.atom (.tok (.chr 65)), .atom .endinput, .atom (.tok (.chr 66))], [.atom (.tok (.chr 67))]]
      = [[.atom (.tok (.chr 65)), .atom .endinput], [.atom (.tok (.chr 67))]] ∧
    inlineToks true (truncFS []) 0
      (truncLines [[.atom (.tok (.chr 65)), .atom .endinput, .atom (.tok (.chr 66))], [.atom (.tok (.chr 67))]])
      = [.chr 65] := by decide

/-- **The input stack: `\input` among pending macro tokens.** If the next pending token of the
current source is `\input f` (it came from a macro body) with further pending tokens `p`, and
`f`'s tree is well-formed within the nesting budget that the height of the stack leaves, the
machine reaches the state in which exactly `f`'s tokens have been delivered and the *same*
source continues with `p` — before the rest `cur` of its current line and its remaining lines
`rest`, both untouched, as are the suspended sources `below`. (`Source.expansions` stays with
the source that did the `\input`; `next_unexpanded` pops pending tokens before it asks the
lexer, also right after a source has ended.) -/
theorem input_returns_to_pending_tokens (fs : FS) (d : Nat) (f : Nat) (hf : wfFile fs (d + 1) f = true)
    (p : List Atom) (cur : List Item) (rest : List Line) (below : List Source) (out : List Tok)
    (h1 : 1 ≤ below.length) (hle : below.length + (d + 1) ≤ 100) :
    ∃ n, iter fs n ⟨⟨.input f :: p, cur, rest⟩ :: below, out, .running⟩
      = ⟨⟨p, cur, rest⟩ :: below, out ++ denFile false fs (d + 1) f, .running⟩ :=
  input_among_pending fs d below.length h1 hle f hf p cur rest below out rfl

/-- Non-vacuity: `\m` with body `\input f X`, `f` = `B`, then `Y` on the line: `B X Y`. -/
example :
    run [(0, [[.atom (.tok (.chr 66))]])] 30
      [[.call [.input 0, .tok (.chr 88)], .atom (.tok (.chr 89))]] = .ok [.chr 66, .chr 88, .chr 89] := by
  decide +kernel

/-- **Which tokens end a file name.** For every token category the code's rule is TeX's
(§526): every character token except a space belongs to the name — also `{ } $ & # ^ _` —
a space ends it and is consumed, a control sequence or an active character ends it and stays.
Hence the scanned name and the number of tokens consumed agree on every token list. -/
theorem name_tokens_are_tex (cat : Nat) : nameTokCode cat = nameTokTeX cat := by
  unfold nameTokCode nameTokTeX
  by_cases h10 : cat = 10
  · simp [h10]
  · by_cases hl : cat < 16
    · have : cat = 0 ∨ cat = 1 ∨ cat = 2 ∨ cat = 3 ∨ cat = 4 ∨ cat = 5 ∨ cat = 6 ∨ cat = 7 ∨ cat = 8 ∨
        cat = 9 ∨ cat = 11 ∨ cat = 12 ∨ cat = 13 ∨ cat = 14 ∨ cat = 15 := by omega
      rcases this with h | h | h | h | h | h | h | h | h | h | h | h | h | h | h <;> subst h <;> decide
    · have h16 : cat ≥ 16 := by omega
      have : cat ∉ [1, 2, 3, 4, 6, 7, 8, 11, 12] := by
        intro hm; simp at hm; omega
      simp [h10, h16, this]

theorem scanned_name_is_tex (toks : List (Nat × Nat)) : takeName nameTokCode toks = takeName nameTokTeX toks := by
  have : nameTokCode = nameTokTeX := funext name_tokens_are_tex
  rw [this]

/-- `chapter_one␣X`: the name is `chapter_one` (11 characters, the `_` of category 8
included), 12 tokens are consumed; `a\relax`: the name is `a`, one token consumed. -/
example :
    takeName nameTokTeX [(99, 11), (104, 11), (95, 8), (111, 11), (32, 10), (88, 11)] = ([99, 104, 95, 111], 5) ∧
    takeName nameTokCode [(97, 11), (0, 16)] = ([97], 1) ∧
    takeName nameTokTeX [(97, 11), (123, 1), (36, 3), (125, 2), (126, 13)] = ([97, 123, 36, 125], 4) := by decide

end C19
