import TexcraftModel.Lemmas.C20GMap
import TexcraftModel.Lemmas.C20Vec
import TexcraftModel.Lemmas.C20Obs
import TexcraftModel.Lemmas.C20Backing
import TexcraftModel.Lemmas.C20Equiv
import TexcraftModel.Lemmas.C20TagsFine
import TexcraftModel.Lemmas.C20Interner
import TexcraftModel.Lemmas.C20Kmp
import TexcraftModel.Lemmas.C20Tags

/-!
# C20 — property theorems (containers and identifiers)

Only the statements that *are* the property live here; helper lemmas are in
`Lemmas/C20GMap.lean`, `Lemmas/C20Interner.lean`, `Lemmas/C20Kmp.lean`, `Lemmas/C20Tags.lean`.

Scoped map (`Model/C20.lean`, generic in key and value type):
* `gmap_refines`, `gmap_refines_run` — the map equals the stack-of-snapshots specification after
  every operation / every finite history (any depth, any number of keys);
* `gmap_inv` — the structural invariant `Inv` is preserved by every operation;
* `iterAll_total` — the two `unwrap`s of `IterAll::new` cannot fail on a reachable map;
* `iterAll_roundtrip`, `iterAll_same_behaviour` — `iter_all` → `FromIterator` rebuilds a map with the
  same abstract state (visible values *and* every saved snapshot), hence the same results and
  reads under every further history;
* `vec_backing_*` — the `Vec<Option<V>>` backing obeys the same get/insert/remove/iter laws as
  the association-list backing of the model;
* `vgmap_refines_run`, `vgmap_get_run`, `vgmap_iterAll_roundtrip_run` — the same container code
  instantiated with the `Vec<Option<V>>` backing (`GroupingVec`, `Model/C20Vec.lean`) meets the same
  specification for every history, and its `iter_all` → `FromIterator` round trip likewise
  (by a step-for-step simulation `Sim` with the association-list instance).

Interner (`Model/C20Interner.lean`), for **every** hash function (nothing assumed: a constant
one included): `intern_total`, `intern_key_eq_iff`, `resolve_intern`, `resolve_stable`,
`rebuild_dedup`.

KMP matcher (`Model/C20Kmp.lean`): `prefixFn_spec`, `search_next_spec`, `search_spec`.

Tags (`Model/C20Tags.lean`, interleaving model): `tags_distinct`, `static_tag_once`,
`tags_no_panic`, `tags_exact`.
-/
namespace C20.Thm

/-! ## Scoped map -/
section GMap
variable {K V : Type} [DecidableEq K]

/-- The empty map satisfies the invariant (non-vacuity of every `Inv` hypothesis below). -/
theorem gmap_inv_empty : Inv (GMap.empty : GMap K V) := C20.inv_empty

/-- Every operation preserves the invariant. -/
theorem gmap_inv (m : GMap K V) (op : Op K V) (h : Inv m) : Inv (m.step op).1 :=
  C20.gmap_inv m op h

/-- One step: the abstraction of the new map is the specification's new state, and the value
returned (insert's "existed" flag, `end_group`'s error, a read) is the specification's. -/
theorem gmap_refines (m : GMap K V) (op : Op K V) (h : Inv m) :
    (m.step op).1.abs = (m.abs.step op).1 ∧ (m.step op).2 = (m.abs.step op).2 :=
  C20.gmap_refines m op h

/-- Every finite history from the empty map (reads are operations of the history): same
outputs as the stack of snapshots, and the final state abstracts to the final snapshots. -/
theorem gmap_refines_run (ops : List (Op K V)) :
    ((GMap.empty : GMap K V).run ops).2 = (Snap.init.run ops).2 ∧
    ((GMap.empty : GMap K V).run ops).1.abs = (Snap.init.run ops).1 :=
  C20.gmap_refines_run ops

/-- Every map reached by a history satisfies the invariant. -/
theorem gmap_reachable_inv (ops : List (Op K V)) : Inv ((GMap.empty : GMap K V).run ops).1 :=
  C20.inv_run _ _ C20.inv_empty

/-- `iter_all` never hits one of its two `unwrap`s on a map satisfying the invariant. -/
theorem iterAll_total (m : GMap K V) (h : Inv m) : ∃ items, m.iterAll = .ok items :=
  C20.iterAll_total m h

/-- Rebuilding from the full iteration gives the same abstract state: same visible values and
the same saved snapshot for every open group. -/
theorem iterAll_roundtrip (m : GMap K V) (h : Inv m) :
    ∃ items, m.iterAll = .ok items ∧ (GMap.fromIter items).abs = m.abs ∧ Inv (GMap.fromIter items) :=
  C20.iterAll_roundtrip m h

/-- … hence the same behaviour under every further history. -/
theorem iterAll_same_behaviour (m : GMap K V) (h : Inv m) (items : List (Item K V))
    (hi : m.iterAll = .ok items) (ops : List (Op K V)) :
    ((GMap.fromIter items).run ops).2 = (m.run ops).2 :=
  C20.iterAll_same_behaviour m h items hi ops

/-- The whole property for reachable maps, without mentioning `Inv`: after any history `pre`,
`iter_all` succeeds and the rebuilt map answers any continuation `post` exactly like the original
and like the specification. -/
theorem iterAll_roundtrip_run (pre post : List (Op K V)) :
    ∃ items, ((GMap.empty : GMap K V).run pre).1.iterAll = .ok items ∧
      ((GMap.fromIter items).run post).2 = (((GMap.empty : GMap K V).run pre).1.run post).2 ∧
      ((GMap.fromIter items).run post).2 = ((Snap.init.run pre).1.run post).2 := by
  have hinv : Inv ((GMap.empty : GMap K V).run pre).1 := C20.inv_run _ _ C20.inv_empty
  obtain ⟨items, hi, habs, hinv'⟩ := C20.iterAll_roundtrip _ hinv
  refine ⟨items, hi, C20.iterAll_same_behaviour _ hinv items hi post, ?_⟩
  have h1 := (gmap_refines_run_from (GMap.fromIter items) hinv' post).1
  rw [h1, habs, (C20.gmap_refines_run pre).2]

/-- The other observers agree with the specification's visible state: `iter()` yields exactly the
visible pairs, each key once; `len()` counts them; `is_empty()` holds iff nothing is visible. -/
theorem gmap_iter_spec (m : GMap K V) (h : Inv m) :
    (∀ k v, (k, v) ∈ m.iter ↔ m.abs.cur k = some v) ∧ (m.iter.map (·.1)).Nodup ∧
    m.len = m.iter.length ∧ (m.isEmpty = true ↔ ∀ k, m.abs.cur k = none) :=
  C20.gmap_iter_spec m h

/-- `extend` is exactly a history of local inserts (so everything above applies to it). -/
theorem gmap_extend_run (m : GMap K V) (l : List (K × V)) :
    m.extend l = (m.run (l.map fun p => Op.insert p.1 p.2 .loc)).1 :=
  C20.gmap_extend_run m l

-- non-vacuity: a concrete nested history, its iteration, and the rebuilt map's reads
example :
    let m := ((GMap.empty : GMap Nat Nat).run
      [.insert 0 1 .loc, .beginGroup, .insert 0 2 .loc, .insert 1 5 .loc, .beginGroup, .insert 0 3 .glob]).1
    m.iterAll = .ok [.value 0 3, .beginGroup, .value 1 5, .beginGroup] ∧
    ((GMap.fromIter [Item.value 0 3, .beginGroup, .value 1 5, .beginGroup]).run
        [.get 0, .endGroup, .endGroup, .get 0, .get 1, .endGroup]).2
      = [.val (some 3), .unit, .unit, .val (some 3), .val none, .errNoGroup] := by decide

end GMap

/-! ### The `Vec<Option<V>>` backing container -/
section VecBacking
variable {V : Type}
open C20.VecBacking

theorem vec_backing_get_insert (l : List (Option V)) (k k' : Nat) (v : V) :
    get (insert l k v) k' = if k' = k then some v else get l k' := get_insert l k k' v

theorem vec_backing_get_remove (l : List (Option V)) (k k' : Nat) :
    get (remove l k) k' = if k' = k then none else get l k' := get_remove l k k'

theorem vec_backing_iter (l : List (Option V)) (k : Nat) (v : V) :
    (k, v) ∈ iter l ↔ get l k = some v := iter_spec l k v

theorem vec_backing_len (l : List (Option V)) : len l = (iter l).length := len_eq_iter l

end VecBacking

/-! ### `GroupingVec`: the container code over the `Vec<Option<V>>` backing -/
section VGMap
variable {V : Type}

/-- Step-for-step simulation between the two instances (same outputs, states stay related). -/
theorem vgmap_simulates (vm : VGMap V) (m : GMap Nat V) (op : Op Nat V) (h : Sim vm m) :
    Sim (vm.step op).1 (m.step op).1 ∧ (vm.step op).2 = (m.step op).2 :=
  C20.sim_step vm m op h

/-- Every history on a `GroupingVec`: same outputs as the stack of snapshots. -/
theorem vgmap_refines_run (ops : List (Op Nat V)) :
    ((VGMap.empty : VGMap V).run ops).2 = (Snap.init.run ops).2 :=
  C20.vgmap_refines_run ops

/-- … and every key reads as the specification's visible value afterwards. -/
theorem vgmap_get_run (ops : List (Op Nat V)) (k : Nat) :
    ((VGMap.empty : VGMap V).run ops).1.get k = (Snap.init.run ops).1.cur k :=
  C20.vgmap_get_run ops k

/-- `iter_all` → `FromIterator` on a `GroupingVec` reached by any history: succeeds, and the rebuilt
map answers every continuation like the original and like the specification. -/
theorem vgmap_iterAll_roundtrip_run (pre post : List (Op Nat V)) :
    ∃ items, ((VGMap.empty : VGMap V).run pre).1.iterAll = .ok items ∧
      ((VGMap.fromIter items).run post).2 = (((VGMap.empty : VGMap V).run pre).1.run post).2 ∧
      ((VGMap.fromIter items).run post).2 = ((Snap.init.run pre).1.run post).2 :=
  C20.vgmap_iterAll_roundtrip_run pre post

example : ((VGMap.empty : VGMap Nat).run
    [.insert 3 1 .loc, .beginGroup, .insert 3 2 .loc, .insert 0 5 .loc, .get 3, .endGroup, .get 3, .get 0]).2
    = [.existed false, .unit, .existed true, .existed false, .val (some 2), .unit, .val (some 1), .val none] := by
  decide

end VGMap

/-! ## Interner — for every hash function `h` -/
namespace Intern
open C20.Intern

/-- Interning any list of strings never panics, and the keys are those of the specification
(index of first occurrence + 1). -/
theorem intern_total (h : Str → Nat) (hist : List Str) :
    ∃ st, internAll h empty hist = .ok (st, (specInternAll [] hist).2) := by
  obtain ⟨st, h1, _⟩ := internAll_spec h hist
  exact ⟨st, h1⟩

/-- Equal keys exactly for equal strings. -/
theorem intern_key_eq_iff (h : Str → Nat) (hist : List Str) (st : Interner) (keys : List Nat)
    (hk : internAll h empty hist = .ok (st, keys)) :
    keys.length = hist.length ∧
    ∀ i j (hi : i < hist.length) (hj : j < hist.length), (keys[i]? = keys[j]?) ↔ (hist[i] = hist[j]) :=
  C20.Intern.intern_key_eq_iff h hist st keys hk

private theorem reach_rep (h : Str → Nat) (hist : List Str) (st : Interner) (keys : List Nat)
    (hk : internAll h empty hist = .ok (st, keys)) : Rep h st (specInternAll [] hist).1 := by
  obtain ⟨st0, h1, r⟩ := C20.Intern.internAll_spec h hist
  rw [h1] at hk
  injection hk with hk
  injection hk with hst _
  exact hst ▸ r

/-- In any reachable state, interning `s` (new or not) returns a key that resolves to `s`. -/
theorem resolve_intern (h : Str → Nat) (hist : List Str) (st : Interner) (keys : List Nat)
    (hk : internAll h empty hist = .ok (st, keys)) (s : Str) :
    ∃ st' k, getOrIntern h st s = .ok (st', k) ∧ resolve st' k = .ok (some s) := by
  have r := reach_rep h hist st keys hk
  obtain ⟨st', hg, _⟩ := getOrIntern_spec r s
  exact ⟨st', _, hg, C20.Intern.resolve_intern r hg⟩

/-- Later interning never changes what an earlier key resolves to. -/
theorem resolve_stable (h : Str → Nat) (hist more : List Str) (st st' : Interner) (keys keys' : List Nat)
    (hk : internAll h empty hist = .ok (st, keys)) (hm : internAll h st more = .ok (st', keys'))
    (k : Nat) (t : Str) (hres : resolve st k = .ok (some t)) :
    resolve st' k = .ok (some t) := by
  have r := reach_rep h hist st keys hk
  obtain ⟨st1, h1, r1⟩ := internAll_spec_from h more st _ r
  rw [h1] at hm
  injection hm with hm
  injection hm with hst _
  subst hst
  rw [resolve_spec r] at hres
  rw [resolve_spec r1]
  injection hres with hres
  obtain ⟨extra, he⟩ := specInternAll_prefix (specInternAll [] hist).1 more
  rw [he]
  cases k with
  | zero => simp [specResolve] at hres
  | succ i =>
    simp only [specResolve] at hres ⊢
    exact congrArg Res.ok (getElem?_append_some _ extra i t hres)

/-- Keys of a run, forgetting the state. -/
def keysOf : Res (Interner × List Nat) → Res (List Nat)
  | .ok (_, ks) => .ok ks
  | .panic => .panic
  | .fuel => .fuel

/-- Deserialisation: the rebuilt interner (possibly with a different hash function `h'`) has the
same `get`, the same `resolve`, and hands out the same keys for every further list of strings. -/
theorem rebuild_dedup (h h' : Str → Nat) (hist : List Str) (st : Interner) (keys : List Nat)
    (hk : internAll h empty hist = .ok (st, keys)) :
    ∃ st', rebuild h' st.buffer st.ends = .ok st' ∧
      (∀ s, get h' st' s = get h st s) ∧ (∀ k, resolve st' k = resolve st k) ∧
      ∀ more, keysOf (internAll h' st' more) = keysOf (internAll h st more) := by
  have r := reach_rep h hist st keys hk
  obtain ⟨st', hb, r'⟩ := rebuild_spec r h'
  refine ⟨st', hb, rebuild_get r hb, rebuild_resolve r hb, ?_⟩
  intro more
  obtain ⟨_, h1, _⟩ := internAll_spec_from h more st _ r
  obtain ⟨_, h2, _⟩ := internAll_spec_from h' more st' _ r'
  rw [h1, h2]; rfl

-- non-vacuity under a constant hash: all strings collide
example :
    keysOf (internAll (fun _ => 12) empty [[104, 105], [119], [104, 105], [], [119]]) = .ok [1, 2, 1, 3, 2] := by
  decide

end Intern

/-! ## KMP matcher -/
namespace Kmp
open C20.Kmp
variable {α : Type} [DecidableEq α]

/-- `Matcher::new` never panics; entry `i` of the table is the length of the longest proper
border of `pat[0..=i]`. -/
theorem prefixFn_spec (first : α) (tail : List α) :
    ∃ pf, prefixFn first tail = .ok pf ∧ pf.length = tail.length + 1 ∧
      ∀ i (hi : i < pf.length),
        IsBorder ((first :: tail).take (i + 1)) pf[i] ∧
        pf[i] < ((first :: tail).take (i + 1)).length ∧
        ∀ n, n < ((first :: tail).take (i + 1)).length →
          IsBorder ((first :: tail).take (i + 1)) n → n ≤ pf[i] :=
  C20.Kmp.prefixFn_spec first tail

/-- One `Search::next`: no panic (in particular `q < |pat|`, so `substring[self.q]` is in
range), `true` exactly when the pattern ends at the new element, and the state invariant
("`q` = longest prefix of `pat`, shorter than `pat`, that is a suffix of the consumed text")
is kept. -/
theorem search_next_spec (first : α) (tail : List α) (pf : List Nat) (pat consumed : List α)
    (q : Nat) (x : α) (hpf : prefixFn first tail = .ok pf) (hpat : pat = first :: tail)
    (hq : MatchState pat consumed q) :
    ∃ q' b, next pat pf q x = .ok (q', b) ∧ (b = true ↔ pat <:+ consumed ++ [x]) ∧
      MatchState pat (consumed ++ [x]) q' :=
  C20.Kmp.search_next_spec first tail pf pat consumed q x hpf hpat hq

/-- Whole texts: the answers are exactly "the pattern ends here", overlaps included; never a
panic, never out of fuel. -/
theorem search_spec (first : α) (tail text : List α) :
    search first tail text = .ok (spec (first :: tail) text) :=
  C20.Kmp.search_spec first tail text

-- non-vacuity: overlapping occurrences of `aba` in `ababa`
example : search 0 [1, 0] [0, 1, 0, 1, 0] = .ok [false, false, true, false, true] := by decide
example : MatchState [0, 1, 0] ([] : List Nat) 0 := ⟨by decide, by simp, by
  intro n hn h; have := List.IsSuffix.length_le h; simp at this; omega⟩

end Kmp

/-! ## Tags (interleaving model; atomicity of `Mutex`/`OnceLock` is assumed, see `Model/C20Tags.lean`) -/
namespace Tags
open C20.Tags

/-- In every schedule, the tags returned by all `Tag::new` calls (of all threads), together
with the tags stored in static cells, are pairwise distinct. -/
theorem tags_distinct (sched : List Ev) :
    (newTags (run init sched).2 ++ vals (run init sched).1.cells).Nodup :=
  C20.Tags.all_tags_distinct sched

/-- In every schedule, every `get` on one static tag returns the same value. -/
theorem static_tag_once (sched : List Ev) (c : Nat) :
    ∀ t ∈ cellTags c (run init sched).2, ∀ t' ∈ cellTags c (run init sched).2, t = t' :=
  C20.Tags.static_tag_once sched c

/-- Static tags differ from every `Tag::new` tag and from each other. -/
theorem static_tag_fresh (sched : List Ev) (c c' : Nat) :
    (∀ t ∈ cellTags c (run init sched).2, ∀ t' ∈ newTags (run init sched).2, t ≠ t') ∧
    (c ≠ c' → ∀ t ∈ cellTags c (run init sched).2, ∀ t' ∈ cellTags c' (run init sched).2, t ≠ t') :=
  ⟨cell_tag_ne_new_tag sched c, fun hc => cell_tags_distinct sched c c' hc⟩

/-- No call panics while fewer than 2^32 − 2 tags have been requested; tags are non-zero `u32`. -/
theorem tags_no_panic (sched : List Ev) (h : sched.length + 1 < u32Max) :
    (∀ p ∈ (run init sched).2, p.2 ≠ none) ∧
    (∀ p ∈ (run init sched).2, ∀ t, p.2 = some t → 1 ≤ t ∧ t < u32Max) :=
  ⟨C20.Tags.tags_no_panic sched h,
   fun p hp t ht => ⟨C20.Tags.tags_positive sched p hp t ht, C20.Tags.tags_lt_u32Max sched p hp t ht⟩⟩

/-- With only `Tag::new` events the tags are exactly `1, 2, …, N` in schedule order (what the
harness compares the multiset of real tags with). -/
theorem tags_exact (sched : List Ev) (h : sched.length + 1 < u32Max)
    (hnew : ∀ e ∈ sched, e.isNew = true) :
    newTags (run init sched).2 = List.range' 1 sched.length :=
  C20.Tags.tags_exact sched h hnew

-- non-vacuity: three threads interleaved, one static cell read twice
example : (run init [.new 0, .get 1 7, .new 2, .get 0 7, .new 1]).2.map (·.2)
    = [some 1, some 2, some 3, some 2, some 4] := by decide
example : ([Ev.new 0, .new 1, .new 0] : List Ev).length + 1 < u32Max := by decide

end Tags

/-! ## Deepening round

### The container code over any backing container (`Model/C20Backing.lean`)

`BMap bk` is the Rust container code written once against the trait `BackingContainer` (`Backing`).
The theorems below hold for every lawful backing; `hashBacking` (HashMap) and `vecBacking`
(`Vec<Option<V>>`) are lawful, so clients (C01, C08) get both `GroupingHashMap` and `GroupingVec`. -/
section Backing
variable {K V : Type} [DecidableEq K] {bk : Backing K V}

theorem bmap_simulates (law : bk.Lawful) (bm : BMap bk) (m : GMap K V) (op : Op K V) (h : BSim bm m) :
    BSim (bm.step op).1 (m.step op).1 ∧ (bm.step op).2 = (m.step op).2 :=
  C20.bsim_step law bm m op h

/-- Every history, any lawful backing: the outputs of the stack of snapshots. -/
theorem bmap_refines_run (law : bk.Lawful) (ops : List (Op K V)) :
    ((BMap.empty : BMap bk).run ops).2 = (Snap.init.run ops).2 :=
  C20.bmap_refines_run law ops

theorem bmap_get_run (law : bk.Lawful) (ops : List (Op K V)) (k : K) :
    ((BMap.empty : BMap bk).run ops).1.get k = (Snap.init.run ops).1.cur k :=
  C20.bmap_get_run law ops k

/-- `iter_all` → `FromIterator`, any lawful backing, after any history. -/
theorem bmap_iterAll_roundtrip_run (law : bk.Lawful) (pre post : List (Op K V)) :
    ∃ items, ((BMap.empty : BMap bk).run pre).1.iterAll = .ok items ∧
      ((BMap.fromIter items : BMap bk).run post).2 = (((BMap.empty : BMap bk).run pre).1.run post).2 ∧
      ((BMap.fromIter items : BMap bk).run post).2 = ((Snap.init.run pre).1.run post).2 :=
  C20.bmap_iterAll_roundtrip_run law pre post

/-- `iter()`, `len()`, `is_empty()`, any lawful backing, after any history. -/
theorem bmap_iter_spec (law : bk.Lawful) (ops : List (Op K V)) :
    let bm := ((BMap.empty : BMap bk).run ops).1
    let s := (Snap.init.run ops).1
    (∀ k v, (k, v) ∈ bm.iter ↔ s.cur k = some v) ∧ (bm.iter.map (·.1)).Nodup ∧
      bm.len = bm.iter.length ∧ (bm.isEmpty = true ↔ ∀ k, s.cur k = none) :=
  C20.bmap_iter_spec law ops

/-- The two `impl`s of the trait satisfy the laws. -/
theorem backings_lawful : (hashBacking K V).Lawful ∧ (vecBacking V).Lawful :=
  ⟨hashBacking_lawful, vecBacking_lawful⟩

/-- The HashMap instance of the generic code gives exactly the outputs of `GMap`. -/
theorem bmap_hash_is_gmap (ops : List (Op K V)) :
    ((BMap.empty : BMap (hashBacking K V)).run ops).2 = ((GMap.empty : GMap K V).run ops).2 :=
  C20.bmap_hash_is_gmap ops

example : ((BMap.empty : BMap (vecBacking Nat)).run
    [.insert 3 1 .loc, .beginGroup, .insert 3 2 .glob, .insert 0 5 .loc, .endGroup, .get 3, .get 0]).2
    = [.existed false, .unit, .existed true, .existed false, .unit, .val (some 2), .val none] := by
  decide

/-! ### Mutant 14 of the sweep is equivalent (why `end_group` may restore "only if present") -/

theorem endGroup_getMut_equiv (m : GMap K V) (h : Inv m) : m.endGroupGetMut = m.endGroup :=
  C20.endGroup_getMut_equiv m h

/-- … on every reachable map. -/
theorem endGroup_getMut_equiv_run (ops : List (Op K V)) :
    ((GMap.empty : GMap K V).run ops).1.endGroupGetMut = ((GMap.empty : GMap K V).run ops).1.endGroup :=
  C20.endGroup_getMut_equiv _ (C20.inv_reachable ops)

end Backing

/-! ### Tags at instruction level (`Model/C20TagsFine.lean`): the assumption is exactly "the lock is exclusive" -/
namespace TagsFine
open C20.TagsFine

/-- `Tag::new` as coded (lock; read; write; unlock), mutex as a primitive: for every schedule — any
number of threads and calls, blocked acquisitions included — the returned tags are pairwise distinct. -/
theorem lock_tags_distinct (sched : List Nat) : (tags (run lockProg init sched)).Nodup :=
  C20.TagsFine.lock_tags_distinct sched

/-- They are exactly the numbers `1 … n` (each below the counter, counter = number of tags + 1),
and at most one thread is ever inside the critical section. -/
theorem lock_tags_exact (sched : List Nat) :
    (∀ t ∈ tags (run lockProg init sched), 1 ≤ t ∧ t < (run lockProg init sched).counter) ∧
    (run lockProg init sched).counter = (tags (run lockProg init sched)).length + 1 ∧
    (∀ i j, ((run lockProg init sched).th i).pc ≠ 0 → ((run lockProg init sched).th j).pc ≠ 0 → i = j) :=
  ⟨lock_tags_range sched, lock_tags_count sched, lock_mutual_exclusion sched⟩

/-- Mutant 35 (lock released between the read and the write), same machine: a schedule with a duplicate. -/
theorem racy_duplicate : ∃ sched, ¬ (tags (run racyProg init sched)).Nodup :=
  C20.TagsFine.racy_duplicate

end TagsFine

namespace StaticFine
open C20.StaticFine

/-- `StaticTag::get` as coded (`get_or_init` atomic): one value, in every schedule. -/
theorem coded_static_once (sched : List Nat) :
    ∀ v ∈ vals (run codedProg init sched), ∀ w ∈ vals (run codedProg init sched), v = w :=
  C20.StaticFine.coded_static_once sched

/-- Mutant 36 (`get()`, `Tag::new()`, `set()`), same machine: a schedule with two different values. -/
theorem mutant_static_two_values :
    ∃ sched, ∃ v ∈ vals (run mutantProg init sched), ∃ w ∈ vals (run mutantProg init sched), v ≠ w :=
  C20.StaticFine.mutant_static_two_values

end StaticFine

end C20.Thm
