import TexcraftModel.Lemmas.C02
import TexcraftModel.Lemmas.C02Kmp
import TexcraftModel.Lemmas.C02Def
import TexcraftModel.Lemmas.C02Stream
import TexcraftModel.Lemmas.C02DefInv
import TexcraftModel.Lemmas.C02Spec

/-!
# C02 — macro parameters bind and substitute exactly as in TeX: the property statements

`M` = `Model/C02.lean` (`defParse`, `call`: transcriptions of `def.rs`, `texmacro.rs`,
`substringsearch.rs`, `parse/mod.rs`, with the trimming predicate of `fixes/C02-a.patch`);
`S` = the specification in the same file (`specDelim`, `specUndelim`, `stripSpec`,
`specExpand`: naive searches in the words of TeX §391–§401, independent of KMP, depth
counters and index arithmetic). All statements are for token lists of any length and
nesting depth.
-/
namespace C02

/-! ## The KMP matcher used for delimiters -/

/-- `Matcher::new` never panics on a non-empty delimiter, and afterwards `Search::next`
never panics and returns `true` exactly when the delimiter is a suffix of the tokens fed
so far (any token sequence). -/
theorem matcher_correct (d : List Tok) (h : d ≠ []) :
    ∃ pf, Matcher.new? d = some ⟨d, pf⟩ ∧ MatcherOK ⟨d, pf⟩ :=
  kmp_correct d h

/-! ## What the specification's searches mean -/

/-- `specDelim` returns the *shortest* brace-balanced run followed by the delimiter. -/
theorem spec_delimited_shortest {d inp a rest : List Tok} (h : specDelim d inp = some (a, rest)) :
    inp = a ++ d ++ rest ∧ Balanced a ∧
      ∀ a' rest', inp = a' ++ d ++ rest' → Balanced a' → a.length ≤ a'.length := by
  obtain ⟨mid, hmid, hinp, hbal, hmin⟩ := specDelimFrom_spec d inp [] a rest h
  simp only [List.nil_append] at hmid hmin
  subst hmid
  refine ⟨hinp, hbal, ?_⟩
  intro a' rest' hinp' hbal'
  by_cases hlt : a'.length < a.length
  · exfalso
    have hpa : a' <+: a := by
      apply List.prefix_of_prefix_length_le (l₃ := inp)
      · rw [hinp', List.append_assoc]; exact List.prefix_append _ _
      · rw [hinp, List.append_assoc]; exact List.prefix_append _ _
      · omega
    obtain ⟨x, hx⟩ := hpa
    have htake : a.take a'.length = a' := by rw [← hx]; simp
    refine hmin a'.length hlt ⟨by rw [htake]; exact hbal', ?_⟩
    rw [← hinp, hinp', List.append_assoc, List.drop_left]
    exact List.prefix_append _ _
  · omega

/-- …and it finds one whenever there is one. -/
theorem spec_delimited_total {d a rest : List Tok} (hbal : Balanced a) :
    ∃ a' rest', specDelim d (a ++ d ++ rest) = some (a', rest') := by
  have key : ∀ (mid pre : List Tok), Balanced (pre ++ mid) →
      ∃ a' rest', specDelimFrom d pre (mid ++ d ++ rest) = some (a', rest') := by
    intro mid
    induction mid with
    | nil =>
      intro pre hb
      rw [specDelimFrom.eq_def]
      have : (balancedB pre && d.isPrefixOf ([] ++ d ++ rest)) = true := by
        simp only [Bool.and_eq_true, List.isPrefixOf_iff_prefix]
        exact ⟨by simpa [balancedB] using hb, by simp⟩
      simp only [this, if_true]
      exact ⟨_, _, rfl⟩
    | cons t ts ih =>
      intro pre hb
      simp only [List.cons_append]
      rw [specDelimFrom]
      split
      · exact ⟨_, _, rfl⟩
      · exact ih (pre ++ [t]) (by simpa using hb)
  exact key a [] (by simpa using hbal)

/-- Together: `specDelim d inp = some (a, rest)` *iff* `a` is the shortest balanced run
followed by `d` (the declarative reading of TeX §392–§397 for a delimited parameter). -/
theorem spec_delimited_iff {d inp a rest : List Tok} :
    specDelim d inp = some (a, rest) ↔
      (inp = a ++ d ++ rest ∧ Balanced a ∧
        ∀ a' rest', inp = a' ++ d ++ rest' → Balanced a' → a.length ≤ a'.length) := by
  constructor
  · exact spec_delimited_shortest
  · rintro ⟨hinp, hbal, hmin⟩
    obtain ⟨a', rest', h'⟩ := spec_delimited_total (d := d) (rest := rest) hbal
    rw [← hinp] at h'
    obtain ⟨hinp', hbal', hmin'⟩ := spec_delimited_shortest h'
    have hlen : a'.length = a.length := by
      have h1 := hmin a' rest' hinp' hbal'
      have h2 := hmin' a rest hinp hbal
      omega
    have e : a' ++ (d ++ rest') = a ++ (d ++ rest) := by
      rw [← List.append_assoc, ← List.append_assoc, ← hinp, ← hinp']
    obtain ⟨e1, e2⟩ := List.append_inj e hlen
    have e3 := List.append_cancel_left e2
    rw [h', e1, e3]

/-- `specUndelim`: after dropping space tokens, the next token, or the contents of the next
balanced group. -/
theorem spec_undelimited_next {inp a rest : List Tok} (h : specUndelim inp = some (a, rest)) :
    ∃ sps tl, inp = sps ++ tl ∧ (∀ t ∈ sps, t = .sp) ∧
      ((∃ t, t ≠ .sp ∧ t ≠ .bg ∧ t ≠ .eg ∧ tl = t :: rest ∧ a = [t]) ∨
       (tl = .bg :: a ++ .eg :: rest ∧ Balanced a)) := by
  unfold specUndelim at h
  obtain ⟨sps, h1, h2, h3⟩ := dropWhile_sp_spec inp
  refine ⟨sps, inp.dropWhile (· = .sp), h1, h2, ?_⟩
  · cases hd : inp.dropWhile (· = .sp) with
    | nil => simp [hd] at h
    | cons t ts =>
      rw [hd] at h
      have hnsp : t ≠ .sp := h3 t ts hd
      cases t with
      | bg =>
        right
        obtain ⟨g', hg, hts, hbal, _⟩ := specGroupFrom_finish ts [] 0 a rest rfl h
        simp at hg; subst hg
        exact ⟨by simp [hts], hbal⟩
      | eg => simp at h
      | sp => exact absurd rfl hnsp
      | param => left; simp at h; exact ⟨_, by simp, by simp, by simp, by simp [h.2], h.1.symm⟩
      | ch c => left; simp at h; exact ⟨_, by simp, by simp, by simp, by simp [h.2], h.1.symm⟩
      | cs c => left; simp at h; exact ⟨_, by simp, by simp, by simp, by simp [h.2], h.1.symm⟩

/-! ## The code binds what TeX binds -/

/-- A delimited parameter (delimiter `d`, any `\def`-producible shape including the `#{`
form) is bound to the shortest balanced run before the delimiter, with one pair of outer
braces removed iff the run is a single group; the tokens after the delimiter are untouched.
`m` is the matcher `Matcher::new` builds. -/
theorem delimited_shortest {d : List Tok} {m : Matcher} (hwf : DelimWF d)
    (hm : Matcher.new? d = some m) (n : Nat) {inp a rest : List Tok}
    (h : specDelim d inp = some (a, rest)) :
    parseDelimited shouldTrim m n inp = .ok (stripSpec a, rest) := by
  obtain ⟨pf, hpf, hok⟩ := kmp_correct d hwf.ne
  rw [hpf] at hm
  cases hm
  exact specDelim_parse ⟨d, pf⟩ hok hwf n h

/-- An undelimited parameter is bound to the next token or the contents of the next group,
after skipping space tokens. -/
theorem undelimited_next (n : Nat) {inp a rest : List Tok} (h : specUndelim inp = some (a, rest)) :
    parseUndelimited n inp = .ok (a, rest) :=
  specUndelim_parse n h

/-- The (patched) trimming predicate holds exactly when the whole argument is one group
(TeX's `m = 1`). False for the predicate of the unpatched tree: see the `example` below. -/
theorem strip_iff_single_group (a : List Tok) :
    shouldTrim a = true ↔ ∃ b, a = .bg :: b ++ [.eg] ∧ Balanced b :=
  shouldTrim_iff a

/-- The specification's stripping rule is the same statement. -/
theorem spec_strip_iff_single_group (a : List Tok) :
    isSingleGroup a = true ↔ ∃ b, a = .bg :: b ++ [.eg] ∧ Balanced b :=
  isSingleGroup_iff a

/-! ## The whole call -/

/-- **call_eq_spec / defParse_call_roundtrip.** For every parameter text and replacement
text `\def` accepts (`SMValid`: a prefix, up to nine parameters each undelimited or delimited
by arbitrary non-brace tokens, optional `#{`, replacement over literals, `#1..#9`, `##`):
the definition parser, run on the definition as written, consumes exactly the definition and
stores a macro `m` such that for **every** input on which the call matches in TeX's sense
(`specExpand s inp = some out`: arguments of any length and nesting), `Macro::call` delivers
exactly TeX's result: the replacement text with `#n` replaced by the bound arguments and
`##` by `#`, followed by the untouched rest. No panic, no error. -/
theorem call_eq_spec {s : SpecMacro} (h : SMValid s) :
    ∃ m, (∀ tail, defParse (renderDef s ++ tail) = .ok (m, tail)) ∧
      ∀ inp out, specExpand s inp = some out → call m inp = .ok out := by
  obtain ⟨m, hm⟩ := compile_some h
  exact ⟨m, fun tail => defParse_render h hm tail, fun inp out hs => call_compile h hm hs⟩

/-- The definition parser alone: the stored macro is `compile s` (prefix and delimiters
with the `#{` brace appended, KMP tables built, replacement pieces reversed). -/
theorem defParse_call_roundtrip {s : SpecMacro} (h : SMValid s) :
    ∃ m, compile s = some m ∧ (∀ p ∈ m.params, ParamOK p) ∧
      ∀ tail, defParse (renderDef s ++ tail) = .ok (m, tail) := by
  obtain ⟨ps, hps, _, hok⟩ := mkParams_ok s.effDelims (effDelims_wf h)
  have hm : compile s = some ⟨s.effPre, ps, (compileRepl s).map reverseToks⟩ := by simp [compile, hps]
  exact ⟨_, hm, hok, fun tail => defParse_render h hm tail⟩

/-- The binding step alone, for any list of well-formed parameters: the arguments the code
binds are the arguments TeX binds, and the rest is untouched. -/
theorem bind_eq_spec (ps : List Param) (hok : ∀ p ∈ ps, ParamOK p) (i : Nat)
    {inp rest : List Tok} {args : List (List Tok)}
    (h : specBind (ps.map delimOf) inp = some (args, rest)) :
    parseArgs shouldTrim i ps inp = .ok (args, rest) :=
  parseArgs_spec ps i inp args rest hok h

/-- Non-vacuity of `call_eq_spec`: `\def\a#1.#2{[#1##,#2]}` is valid, and the call
`\a{x}{y}. {z}w` matches with TeX's result `[{x}{y}#,z]w`. -/
def exMacro : SpecMacro :=
  ⟨[], [[.ch 46], []], false, [.lit (.ch 91), .arg 0, .hash, .lit (.ch 44), .arg 1, .lit (.ch 93)]⟩

theorem exMacro_valid : SMValid exMacro where
  pre := by simp [exMacro]
  delims := by simp [exMacro, Plain]
  nparams := by simp [exMacro]
  args := by simp [exMacro]
  lits := by simp [exMacro]
  body := by decide

example : specExpand exMacro
    [.bg, .ch 120, .eg, .bg, .ch 121, .eg, .ch 46, .sp, .bg, .ch 122, .eg, .ch 119]
    = some [.ch 91, .bg, .ch 120, .eg, .bg, .ch 121, .eg, .param, .ch 44, .ch 122, .ch 93, .ch 119] := by
  decide

/-- C02-a at the level of the call: on the unpatched tree (`callOld`) the same call delivers
the unbalanced `[x}{y#,z]w`. -/
example : ∃ m, compile exMacro = some m ∧
    callOld m [.bg, .ch 120, .eg, .bg, .ch 121, .eg, .ch 46, .sp, .bg, .ch 122, .eg, .ch 119]
      = .ok [.ch 91, .ch 120, .eg, .bg, .ch 121, .param, .ch 44, .ch 122, .ch 93, .ch 119] :=
  ⟨_, rfl, by decide⟩

/-- C02-a, the witness `{x}{y}`: the unpatched predicate strips, the patched one and TeX do
not. -/
example :
    shouldTrimOld [.bg, .ch 120, .eg, .bg, .ch 121, .eg] = true ∧
    shouldTrim [.bg, .ch 120, .eg, .bg, .ch 121, .eg] = false ∧
    isSingleGroup [.bg, .ch 120, .eg, .bg, .ch 121, .eg] = false := by decide

/-- Non-vacuity: `\def\a#1.{..}` on `{x}{y}.z` — the spec binds `{x}{y}`. -/
example : specDelim [.ch 46] [.bg, .ch 120, .eg, .bg, .ch 121, .eg, .ch 46, .ch 122]
    = some ([.bg, .ch 120, .eg, .bg, .ch 121, .eg], [.ch 122]) := by decide

example : DelimWF [.ch 46] := ⟨by simp, [.ch 46], by simp [NoBrace], Or.inl rfl⟩
example : DelimWF [.ch 46, .bg] := ⟨by simp, [.ch 46], by simp [NoBrace], Or.inr rfl⟩

example : specUndelim [.sp, .bg, .ch 120, .bg, .eg, .eg, .ch 121] = some ([.ch 120, .bg, .eg], [.ch 121]) := by
  decide

/-! ## The token stream (`vm/streams.rs`): the list view is a theorem, not an assumption

`Model/C02Stream.lean` models the current source, the stack of enclosing sources, the pending
(expanded / pushed-back) tokens of each — a stack whose last element is the next token — and
its lexer, and transcribes the call again over `next` / `back` / `expansions_mut().extend`.
`st.flat` is the list the stream will deliver. -/

/-- `next_unexpanded` delivers the head of the list view and leaves its tail: pending tokens
before the lexer of the same source, an inner source before the sources that enclose it;
`None` only when nothing at all is left. -/
theorem stream_next_delivers (st : Stream) :
    match st.next with
    | (none, st') => st.flat = [] ∧ st'.flat = []
    | (some t, st') => st.flat = t :: st'.flat := by
  cases h : st.next with
  | mk o st' =>
    cases o with
    | none => exact next_none h
    | some t => exact next_some h

/-- `back` puts a token in front; writing a (reversed) expansion onto the pending stack puts
the expansion, in reading order, in front. -/
theorem stream_back_push (st : Stream) (t : Tok) (stack : List Tok) :
    (st.back t).flat = t :: st.flat ∧ (st.pushStack stack).flat = stack.reverse ++ st.flat :=
  ⟨back_flat st t, pushStack_flat st stack⟩

/-- **The call over the stream is the call over the list view**, for every macro and every
arrangement of the upcoming tokens over pending stacks, lexers and enclosing sources: same
result (the stream after the call delivers exactly what `call` returns), same error; the fuel
of the stream-level loops never runs out. -/
theorem stream_call_refines (m : Macro) (st : Stream) :
    (∀ out, call m st.flat = .ok out → ∃ st', callS m st = .ok st' ∧ st'.flat = out) ∧
    (∀ e, call m st.flat = .err e → callS m st = .err e) ∧
    (∀ st', callS m st = .ok st' → call m st.flat = .ok st'.flat) ∧
    (callS m st = .panic → call m st.flat = .panic) := by
  have h := callWithS_rel shouldTrim m st
  unfold call callS
  cases h1 : callWith shouldTrim m st.flat <;> cases h2 : callWithS shouldTrim m st <;>
    rw [h1, h2] at h <;> simp_all [RelS0]

/-- **Headline for the stream**: for every valid parameter text and replacement text, the
macro `\def` stores is such that, wherever the tokens of a matching call sit — in the file
that ends with the call, among the pending tokens of an enclosing source, in its lexer, split
over all of them — the call succeeds and what is read afterwards, token by token, is exactly
TeX's result: the replacement with the arguments substituted, then the untouched rest. -/
theorem stream_call_delivers_spec {s : SpecMacro} (h : SMValid s) :
    ∃ m, (∀ tail, defParse (renderDef s ++ tail) = .ok (m, tail)) ∧
      ∀ (st : Stream) (out : List Tok), specExpand s st.flat = some out →
        ∃ st', callS m st = .ok st' ∧ ∀ fuel, out.length ≤ fuel → readAll fuel st' = out := by
  obtain ⟨m, hdef, hcall⟩ := call_eq_spec h
  refine ⟨m, hdef, ?_⟩
  intro st out hs
  obtain ⟨st', h1, h2⟩ := (stream_call_refines m st).1 out (hcall st.flat out hs)
  exact ⟨st', h1, fun fuel hf => by rw [readAll_flat fuel st' (by rw [h2]; exact hf), h2]⟩

/-- Non-vacuity (the shape of the second-round seeded change): `\def\A#1{[#1]}`, the file ends
right after `\A`; the enclosing source has the pending tokens `{x}y` and `z!` in its lexer.
Reading after the call gives `[x]yz!`. -/
example : ∃ m, compile ⟨[], [[]], false, [.lit (.ch 91), .arg 0, .lit (.ch 93)]⟩ = some m ∧
    (match callS m ⟨⟨[], []⟩, [⟨[.ch 121, .eg, .ch 120, .bg], [.ch 122, .ch 33]⟩]⟩ with
     | .ok st' => readAll 20 st'
     | _ => []) = [.ch 91, .ch 120, .ch 93, .ch 121, .ch 122, .ch 33] :=
  ⟨_, rfl, by decide⟩

/-! ## The definition parser accepts exactly the valid definitions; nothing panics -/

/-- **`\def` accepts a text iff it is a valid definition.** `defParse` succeeds on `inp`
leaving `rest` exactly when `inp` is, followed by `rest`, the rendering of some macro
description `s` with: prefix and delimiters free of braces and `#`; the parameters written
`#1`, `#2`, … in this order (that is what `renderDef` writes), at most nine; an optional final
`#{`; a replacement text over non-`#` tokens with balanced braces, `#n` with `n` at most the
number of parameters, and `##`. Everything else — a `}` in the parameter text, `#` followed
by the wrong digit or a non-digit, a tenth parameter, `#n` out of range or `#` followed by
something else in the replacement text, a missing end — is rejected with an error (never a
panic: `defParse_total`). The stored macro is `compile s`. -/
theorem defParse_accepts_iff {inp rest : List Tok} :
    (∃ m, defParse inp = .ok (m, rest)) ↔ ∃ s, SMValid s ∧ inp = renderDef s ++ rest := by
  constructor
  · rintro ⟨m, h⟩
    obtain ⟨s, hs, hinp, _⟩ := defParse_inv h
    exact ⟨s, hs, hinp⟩
  · rintro ⟨s, hs, rfl⟩
    obtain ⟨m, hm⟩ := compile_some hs
    exact ⟨m, defParse_render hs hm rest⟩

/-- …and the description is the one the call theorem is about: an accepted definition stores
`compile s`, so `call_eq_spec` applies to **every** macro `\def` can produce. -/
theorem defParse_accepted_meets_spec {inp rest : List Tok} {m : Macro} (h : defParse inp = .ok (m, rest)) :
    ∃ s, SMValid s ∧ inp = renderDef s ++ rest ∧
      ∀ (st : Stream) (out : List Tok), specExpand s st.flat = some out →
        ∃ st', callS m st = .ok st' ∧ st'.flat = out := by
  obtain ⟨s, hs, hinp, hm⟩ := defParse_inv h
  refine ⟨s, hs, hinp, ?_⟩
  intro st out hsp
  exact (stream_call_refines m st).1 out (call_compile hs hm hsp)

/-- The definition parser returns a macro or an error, never a panic (`Matcher::new` is
total on the delimiters it is given). -/
theorem defParse_total (inp : List Tok) : defParse inp ≠ .panic := defParse_no_panic' inp

/-- A macro stored by `\def` never makes the call panic — on any input, matching or not, over
the list view and over the stream: no index out of range in the KMP matcher, in the argument
slices or in `arguments.get(i).unwrap()`. -/
theorem call_total {inp rest : List Tok} {m : Macro} (h : defParse inp = .ok (m, rest)) :
    (∀ inp2, call m inp2 ≠ .panic) ∧ (∀ st : Stream, callS m st ≠ .panic) := by
  obtain ⟨s, hs, _, hm⟩ := defParse_inv h
  have h1 : ∀ inp2, call m inp2 ≠ .panic := call_no_panic_of_compile hs hm
  exact ⟨h1, fun st hp => h1 st.flat ((stream_call_refines m st).2.2.2 hp)⟩

/-- Non-vacuity and sharpness of `defParse_accepts_iff`: `#1.#2{[#1##,#2]}` is accepted;
`#1#3{}`, a tenth parameter, `#1{#2}` and `}` are rejected with TeX's four errors. -/
example : (∃ m, defParse (renderDef exMacro ++ [.ch 122]) = .ok (m, [.ch 122])) ∧
    defParse [.param, .ch 49, .param, .ch 51, .bg, .eg] = .err .badParamNumber ∧
    defParse ((List.range 9).flatMap (fun i => [Tok.param, .ch (49 + i)]) ++ [.param, .ch 49, .bg, .eg])
      = .err .tooManyParams ∧
    defParse [.param, .ch 49, .bg, .param, .ch 50, .eg] = .err .illegalParamNumber ∧
    defParse [.eg] = .err .unexpectedEndGroup :=
  ⟨defParse_accepts_iff.mpr ⟨exMacro, exMacro_valid, rfl⟩, by decide, by decide, by decide, by decide⟩

/-! ## The executable specification is the declarative one -/

/-- `specUndelim` returns `(a, rest)` **iff** the input is space tokens followed by one
non-brace, non-space token `t` (`a = [t]`) or by `{ a }` with `a` balanced. -/
theorem spec_undelimited_iff {inp a rest : List Tok} :
    specUndelim inp = some (a, rest) ↔
      ∃ sps tl, inp = sps ++ tl ∧ (∀ t ∈ sps, t = .sp) ∧
        ((∃ t, t ≠ .sp ∧ t ≠ .bg ∧ t ≠ .eg ∧ tl = t :: rest ∧ a = [t]) ∨
         (tl = .bg :: a ++ .eg :: rest ∧ Balanced a)) := by
  constructor
  · exact spec_undelimited_next
  · rintro ⟨sps, tl, rfl, hsp, ⟨t, h1, h2, h3, rfl, rfl⟩ | ⟨rfl, hbal⟩⟩
    · exact specUndelim_tok sps t rest hsp h1 h2 h3
    · have := specUndelim_group sps a rest hsp hbal
      simpa using this

/-- **The property's quantifier, declaratively**: the executable `specBind` succeeds with
`(args, rest)` iff `Binds` holds — for every parameter, left to right: undelimited = after
space tokens the next non-brace token or the contents of the next balanced group; delimited
by `d` = the shortest balanced run followed by `d`, with one pair of braces removed iff it is
a single group. So "the call matches" (`specExpand = some _`) in `call_eq_spec` means exactly
that such an argument tuple exists, and then it is unique. -/
theorem spec_bind_iff {ds : List (List Tok)} {inp rest : List Tok} {args : List (List Tok)} :
    specBind ds inp = some (args, rest) ↔ Binds ds inp args rest := by
  constructor
  · intro h
    induction ds generalizing inp args rest with
    | nil => simp [specBind] at h; obtain ⟨rfl, rfl⟩ := h; exact Binds.nil _
    | cons d ds ih =>
      simp only [specBind] at h
      by_cases hd : d = []
      · subst hd
        simp only [if_true] at h
        cases hr : specUndelim inp with
        | none => simp [hr] at h
        | some r =>
          obtain ⟨a, r1⟩ := r
          simp only [hr] at h
          cases hb : specBind ds r1 with
          | none => simp [hb] at h
          | some r2 =>
            obtain ⟨as, rest'⟩ := r2
            simp only [hb] at h
            simp at h; obtain ⟨rfl, rfl⟩ := h
            have hrec := ih hb
            obtain ⟨sps, tl, rfl, hsp, ⟨t, h1, h2, h3, rfl, rfl⟩ | ⟨rfl, hbal⟩⟩ := spec_undelimited_next hr
            · exact Binds.undelimTok sps t r1 ds as rest' hsp h1 h2 h3 hrec
            · have := Binds.undelimGroup sps a r1 ds as rest' hsp hbal hrec
              simpa using this
      · simp only [hd, if_false] at h
        cases hr : specDelim d inp with
        | none => simp [hr] at h
        | some r =>
          obtain ⟨a, r1⟩ := r
          simp only [hr, Option.map_some] at h
          cases hb : specBind ds r1 with
          | none => simp [hb] at h
          | some r2 =>
            obtain ⟨as, rest'⟩ := r2
            simp only [hb] at h
            simp at h; obtain ⟨rfl, rfl⟩ := h
            obtain ⟨rfl, hbal, hmin⟩ := spec_delimited_shortest hr
            exact Binds.delim d a r1 ds as rest' hd hbal hmin (ih hb)
  · intro h
    induction h with
    | nil inp => simp [specBind]
    | undelimTok sps t inp ds as rest hsp h1 h2 h3 _ ih =>
      simp [specBind, specUndelim_tok sps t inp hsp h1 h2 h3, ih]
    | undelimGroup sps a inp ds as rest hsp hbal _ ih =>
      have := specUndelim_group sps a inp hsp hbal
      simp only [List.append_assoc, List.cons_append] at this ⊢
      simp [specBind, this, ih]
    | delim d a inp ds as rest hd hbal hmin _ ih =>
      have := spec_delimited_iff.mpr ⟨rfl, hbal, hmin⟩
      simp only [List.append_assoc] at this
      simp [specBind, hd, this, ih]

/-- Non-vacuity of `Binds`: `#1.#2` on `{x}{y}. {z}w` binds `{x}{y}` and `z`. -/
example : Binds [[.ch 46], []]
    [.bg, .ch 120, .eg, .bg, .ch 121, .eg, .ch 46, .sp, .bg, .ch 122, .eg, .ch 119]
    [[.bg, .ch 120, .eg, .bg, .ch 121, .eg], [.ch 122]] [.ch 119] :=
  spec_bind_iff.mp (by decide)

end C02
