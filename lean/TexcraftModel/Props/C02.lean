import TexcraftModel.Lemmas.C02
import TexcraftModel.Lemmas.C02Kmp
import TexcraftModel.Lemmas.C02Def

/-!
# C02 — macro parameters bind and substitute exactly as in TeX: the property statements

`M` = `Model/C02.lean` (`defParse`, `call`: transcriptions of `def.rs`, `texmacro.rs`,
`substringsearch.rs`, `parse/mod.rs`, with the trimming predicate of `fixes/C02-a.patch`);
`S` = the specification in the same file (`specDelim`, `specUndelim`, `stripSpec`,
`specExpand`: naive searches in the words of TeX §391–§401, independent of KMP, depth
counters and index arithmetic). All statements are for token lists of any length and
nesting depth.
-/
namespace C02

/-! ## The KMP matcher used for delimiters -/

/-- `Matcher::new` never panics on a non-empty delimiter, and afterwards `Search::next`
never panics and returns `true` exactly when the delimiter is a suffix of the tokens fed
so far (any token sequence). -/
theorem matcher_correct (d : List Tok) (h : d ≠ []) :
    ∃ pf, Matcher.new? d = some ⟨d, pf⟩ ∧ MatcherOK ⟨d, pf⟩ :=
  kmp_correct d h

/-! ## What the specification's searches mean -/

/-- `specDelim` returns the *shortest* brace-balanced run followed by the delimiter. -/
theorem spec_delimited_shortest {d inp a rest : List Tok} (h : specDelim d inp = some (a, rest)) :
    inp = a ++ d ++ rest ∧ Balanced a ∧
      ∀ a' rest', inp = a' ++ d ++ rest' → Balanced a' → a.length ≤ a'.length := by
  obtain ⟨mid, hmid, hinp, hbal, hmin⟩ := specDelimFrom_spec d inp [] a rest h
  simp only [List.nil_append] at hmid hmin
  subst hmid
  refine ⟨hinp, hbal, ?_⟩
  intro a' rest' hinp' hbal'
  by_cases hlt : a'.length < a.length
  · exfalso
    have hpa : a' <+: a := by
      apply List.prefix_of_prefix_length_le (l₃ := inp)
      · rw [hinp', List.append_assoc]; exact List.prefix_append _ _
      · rw [hinp, List.append_assoc]; exact List.prefix_append _ _
      · omega
    obtain ⟨x, hx⟩ := hpa
    have htake : a.take a'.length = a' := by rw [← hx]; simp
    refine hmin a'.length hlt ⟨by rw [htake]; exact hbal', ?_⟩
    rw [← hinp, hinp', List.append_assoc, List.drop_left]
    exact List.prefix_append _ _
  · omega

/-- …and it finds one whenever there is one. -/
theorem spec_delimited_total {d a rest : List Tok} (hbal : Balanced a) :
    ∃ a' rest', specDelim d (a ++ d ++ rest) = some (a', rest') := by
  have key : ∀ (mid pre : List Tok), Balanced (pre ++ mid) →
      ∃ a' rest', specDelimFrom d pre (mid ++ d ++ rest) = some (a', rest') := by
    intro mid
    induction mid with
    | nil =>
      intro pre hb
      rw [specDelimFrom.eq_def]
      have : (balancedB pre && d.isPrefixOf ([] ++ d ++ rest)) = true := by
        simp only [Bool.and_eq_true, List.isPrefixOf_iff_prefix]
        exact ⟨by simpa [balancedB] using hb, by simp⟩
      simp only [this, if_true]
      exact ⟨_, _, rfl⟩
    | cons t ts ih =>
      intro pre hb
      simp only [List.cons_append]
      rw [specDelimFrom]
      split
      · exact ⟨_, _, rfl⟩
      · exact ih (pre ++ [t]) (by simpa using hb)
  exact key a [] (by simpa using hbal)

/-- Together: `specDelim d inp = some (a, rest)` *iff* `a` is the shortest balanced run
followed by `d` (the declarative reading of TeX §392–§397 for a delimited parameter). -/
theorem spec_delimited_iff {d inp a rest : List Tok} :
    specDelim d inp = some (a, rest) ↔
      (inp = a ++ d ++ rest ∧ Balanced a ∧
        ∀ a' rest', inp = a' ++ d ++ rest' → Balanced a' → a.length ≤ a'.length) := by
  constructor
  · exact spec_delimited_shortest
  · rintro ⟨hinp, hbal, hmin⟩
    obtain ⟨a', rest', h'⟩ := spec_delimited_total (d := d) (rest := rest) hbal
    rw [← hinp] at h'
    obtain ⟨hinp', hbal', hmin'⟩ := spec_delimited_shortest h'
    have hlen : a'.length = a.length := by
      have h1 := hmin a' rest' hinp' hbal'
      have h2 := hmin' a rest hinp hbal
      omega
    have e : a' ++ (d ++ rest') = a ++ (d ++ rest) := by
      rw [← List.append_assoc, ← List.append_assoc, ← hinp, ← hinp']
    obtain ⟨e1, e2⟩ := List.append_inj e hlen
    have e3 := List.append_cancel_left e2
    rw [h', e1, e3]

/-- `specUndelim`: after dropping space tokens, the next token, or the contents of the next
balanced group. -/
theorem spec_undelimited_next {inp a rest : List Tok} (h : specUndelim inp = some (a, rest)) :
    ∃ sps tl, inp = sps ++ tl ∧ (∀ t ∈ sps, t = .sp) ∧
      ((∃ t, t ≠ .sp ∧ t ≠ .bg ∧ t ≠ .eg ∧ tl = t :: rest ∧ a = [t]) ∨
       (tl = .bg :: a ++ .eg :: rest ∧ Balanced a)) := by
  unfold specUndelim at h
  obtain ⟨sps, h1, h2, h3⟩ := dropWhile_sp_spec inp
  refine ⟨sps, inp.dropWhile (· = .sp), h1, h2, ?_⟩
  · cases hd : inp.dropWhile (· = .sp) with
    | nil => simp [hd] at h
    | cons t ts =>
      rw [hd] at h
      have hnsp : t ≠ .sp := h3 t ts hd
      cases t with
      | bg =>
        right
        obtain ⟨g', hg, hts, hbal, _⟩ := specGroupFrom_finish ts [] 0 a rest rfl h
        simp at hg; subst hg
        exact ⟨by simp [hts], hbal⟩
      | eg => simp at h
      | sp => exact absurd rfl hnsp
      | param => left; simp at h; exact ⟨_, by simp, by simp, by simp, by simp [h.2], h.1.symm⟩
      | ch c => left; simp at h; exact ⟨_, by simp, by simp, by simp, by simp [h.2], h.1.symm⟩
      | cs c => left; simp at h; exact ⟨_, by simp, by simp, by simp, by simp [h.2], h.1.symm⟩

/-! ## The code binds what TeX binds -/

/-- A delimited parameter (delimiter `d`, any `\def`-producible shape including the `#{`
form) is bound to the shortest balanced run before the delimiter, with one pair of outer
braces removed iff the run is a single group; the tokens after the delimiter are untouched.
`m` is the matcher `Matcher::new` builds. -/
theorem delimited_shortest {d : List Tok} {m : Matcher} (hwf : DelimWF d)
    (hm : Matcher.new? d = some m) (n : Nat) {inp a rest : List Tok}
    (h : specDelim d inp = some (a, rest)) :
    parseDelimited shouldTrim m n inp = .ok (stripSpec a, rest) := by
  obtain ⟨pf, hpf, hok⟩ := kmp_correct d hwf.ne
  rw [hpf] at hm
  cases hm
  exact specDelim_parse ⟨d, pf⟩ hok hwf n h

/-- An undelimited parameter is bound to the next token or the contents of the next group,
after skipping space tokens. -/
theorem undelimited_next (n : Nat) {inp a rest : List Tok} (h : specUndelim inp = some (a, rest)) :
    parseUndelimited n inp = .ok (a, rest) :=
  specUndelim_parse n h

/-- The (patched) trimming predicate holds exactly when the whole argument is one group
(TeX's `m = 1`). False for the predicate of the unpatched tree: see the `example` below. -/
theorem strip_iff_single_group (a : List Tok) :
    shouldTrim a = true ↔ ∃ b, a = .bg :: b ++ [.eg] ∧ Balanced b :=
  shouldTrim_iff a

/-- The specification's stripping rule is the same statement. -/
theorem spec_strip_iff_single_group (a : List Tok) :
    isSingleGroup a = true ↔ ∃ b, a = .bg :: b ++ [.eg] ∧ Balanced b :=
  isSingleGroup_iff a

/-! ## The whole call -/

/-- **call_eq_spec / defParse_call_roundtrip.** For every parameter text and replacement
text `\def` accepts (`SMValid`: a prefix, up to nine parameters each undelimited or delimited
by arbitrary non-brace tokens, optional `#{`, replacement over literals, `#1..#9`, `##`):
the definition parser, run on the definition as written, consumes exactly the definition and
stores a macro `m` such that for **every** input on which the call matches in TeX's sense
(`specExpand s inp = some out`: arguments of any length and nesting), `Macro::call` delivers
exactly TeX's result: the replacement text with `#n` replaced by the bound arguments and
`##` by `#`, followed by the untouched rest. No panic, no error. -/
theorem call_eq_spec {s : SpecMacro} (h : SMValid s) :
    ∃ m, (∀ tail, defParse (renderDef s ++ tail) = .ok (m, tail)) ∧
      ∀ inp out, specExpand s inp = some out → call m inp = .ok out := by
  obtain ⟨m, hm⟩ := compile_some h
  exact ⟨m, fun tail => defParse_render h hm tail, fun inp out hs => call_compile h hm hs⟩

/-- The definition parser alone: the stored macro is `compile s` (prefix and delimiters
with the `#{` brace appended, KMP tables built, replacement pieces reversed). -/
theorem defParse_call_roundtrip {s : SpecMacro} (h : SMValid s) :
    ∃ m, compile s = some m ∧ (∀ p ∈ m.params, ParamOK p) ∧
      ∀ tail, defParse (renderDef s ++ tail) = .ok (m, tail) := by
  obtain ⟨ps, hps, _, hok⟩ := mkParams_ok s.effDelims (effDelims_wf h)
  have hm : compile s = some ⟨s.effPre, ps, (compileRepl s).map reverseToks⟩ := by simp [compile, hps]
  exact ⟨_, hm, hok, fun tail => defParse_render h hm tail⟩

/-- The binding step alone, for any list of well-formed parameters: the arguments the code
binds are the arguments TeX binds, and the rest is untouched. -/
theorem bind_eq_spec (ps : List Param) (hok : ∀ p ∈ ps, ParamOK p) (i : Nat)
    {inp rest : List Tok} {args : List (List Tok)}
    (h : specBind (ps.map delimOf) inp = some (args, rest)) :
    parseArgs shouldTrim i ps inp = .ok (args, rest) :=
  parseArgs_spec ps i inp args rest hok h

/-- Non-vacuity of `call_eq_spec`: `\def\a#1.#2{[#1##,#2]}` is valid, and the call
`\a{x}{y}. {z}w` matches with TeX's result `[{x}{y}#,z]w`. -/
def exMacro : SpecMacro :=
  ⟨[], [[.ch 46], []], false, [.lit (.ch 91), .arg 0, .hash, .lit (.ch 44), .arg 1, .lit (.ch 93)]⟩

example : SMValid exMacro where
  pre := by simp [exMacro]
  delims := by simp [exMacro, Plain]
  nparams := by simp [exMacro]
  args := by simp [exMacro]
  lits := by simp [exMacro]
  body := by decide

example : specExpand exMacro
    [.bg, .ch 120, .eg, .bg, .ch 121, .eg, .ch 46, .sp, .bg, .ch 122, .eg, .ch 119]
    = some [.ch 91, .bg, .ch 120, .eg, .bg, .ch 121, .eg, .param, .ch 44, .ch 122, .ch 93, .ch 119] := by
  decide

/-- C02-a at the level of the call: on the unpatched tree (`callOld`) the same call delivers
the unbalanced `[x}{y#,z]w`. -/
example : ∃ m, compile exMacro = some m ∧
    callOld m [.bg, .ch 120, .eg, .bg, .ch 121, .eg, .ch 46, .sp, .bg, .ch 122, .eg, .ch 119]
      = .ok [.ch 91, .ch 120, .eg, .bg, .ch 121, .param, .ch 44, .ch 122, .ch 93, .ch 119] :=
  ⟨_, rfl, by decide⟩

/-- C02-a, the witness `{x}{y}`: the unpatched predicate strips, the patched one and TeX do
not. -/
example :
    shouldTrimOld [.bg, .ch 120, .eg, .bg, .ch 121, .eg] = true ∧
    shouldTrim [.bg, .ch 120, .eg, .bg, .ch 121, .eg] = false ∧
    isSingleGroup [.bg, .ch 120, .eg, .bg, .ch 121, .eg] = false := by decide

/-- Non-vacuity: `\def\a#1.{..}` on `{x}{y}.z` — the spec binds `{x}{y}`. -/
example : specDelim [.ch 46] [.bg, .ch 120, .eg, .bg, .ch 121, .eg, .ch 46, .ch 122]
    = some ([.bg, .ch 120, .eg, .bg, .ch 121, .eg], [.ch 122]) := by decide

example : DelimWF [.ch 46] := ⟨by simp, [.ch 46], by simp [NoBrace], Or.inl rfl⟩
example : DelimWF [.ch 46, .bg] := ⟨by simp, [.ch 46], by simp [NoBrace], Or.inr rfl⟩

example : specUndelim [.sp, .bg, .ch 120, .bg, .eg, .eg, .ch 121] = some ([.ch 120, .bg, .eg], [.ch 121]) := by
  decide

end C02
