import TexcraftModel.Lemmas.C06
import TexcraftModel.Lemmas.C06Print
import TexcraftModel.Lemmas.C06Scan
import TexcraftModel.Lemmas.C06Glue
import TexcraftModel.Lemmas.C06Text
import TexcraftModel.Lemmas.C06Arith
import TexcraftModel.Tables.C06MutAll

/-!
# C06 — property theorems

M = `Model/C06.lean` (the Rust code with fixes/C06-{a..e}.patch), S = `Model/C06Spec.lean`
(Knuth's routines over the integers). Helper lemmas: `Lemmas/C06*.lean`; the 65 536 fraction
values and the 11 111 short digit strings are evaluated by the kernel in `Tables/C06*.lean`.

* `print_scan_roundtrip`, `print_eq_knuth`, `print_shortest`   every legal dimension
* `xn_over_d_eq_knuth`, `nx_plus_y_eq_knuth`                    64-bit kernels = Knuth's 32-bit routines
* `scan_int_eq`, `scan_int_clamp`                               constants in radix 8/10/16
* `advance_wraps`, `multiply_eq_mult_integers`, `divide_trunc_zero`
-/
namespace C06

/-! ## Print, scan back -/

/-- For all `2^31-1` scaled values `|s| ≤ 2^30-1`: `display_no_units` does not panic and
`parse_no_units` reads what it printed back as the identical value. -/
theorem print_scan_roundtrip (s : Int) (h : -maxDimen ≤ s ∧ s ≤ maxDimen) :
    ∃ p, printScaled s = some p ∧ scanNoUnits p = .ok s := by
  obtain ⟨p, h1, _, _, _, _, h6⟩ := print_scan_core s h
  exact ⟨p, h1, h6⟩

/-- What is printed is exactly what TeX's `print_scaled` (§103) prints: sign, integer part,
and 1 to 5 decimal fraction digits. -/
theorem print_eq_knuth (s : Int) (h : -maxDimen ≤ s ∧ s ≤ maxDimen) :
    printScaled s = some (Spec.printScaled s) ∧
      1 ≤ (Spec.printScaled s).frac.length ∧ (Spec.printScaled s).frac.length ≤ 5 ∧
      ∀ d ∈ (Spec.printScaled s).frac, d < 10 := by
  obtain ⟨p, h1, h2, h3, h4, h5, _⟩ := print_scan_core s h
  subst h2
  exact ⟨h1, h3, h4, h5⟩

/-- Knuth's guarantee: the printed fraction is the shortest — any decimal `q` (any integer
part, any number of fraction digits) that scans to `s` has at least as many fraction digits
(at least one digit is always printed). -/
theorem print_shortest (s : Int) (h : -maxDimen ≤ s ∧ s ≤ maxDimen) (q : Printed)
    (hq : ∀ d ∈ q.frac, d < 10) (hs : scanNoUnits q = .ok s) :
    ∃ p, printScaled s = some p ∧ p.frac.length ≤ max 1 q.frac.length :=
  print_shortest_core s h q hq hs

/-- `Scaled::parse_from_string` (with fixes/C06-h.patch) reads `Display`'s output (`…pt`) back
as the identical value too. -/
theorem parse_from_string_roundtrip (s : Int) (h : -maxDimen ≤ s ∧ s ≤ maxDimen) :
    parseFromString (Spec.printScaled s) .pt = .ok s := by
  obtain ⟨p, _, h2, _, h4, _, h6⟩ := print_scan_core s h
  subst h2
  unfold scanNoUnits at h6
  unfold parseFromString
  by_cases c1 : ((Spec.printScaled s).ip : Int) > 2147483647
  · rw [if_pos c1] at h6; simp at h6
  · rw [if_neg c1] at h6 ⊢
    rw [if_neg (by omega), fromDecimalDigits_pad17] at h6
    exact h6

/-- C06-h at its witness: before the fix `-0.5pt` was read as `+0.5pt`. -/
example : parseFromString { neg := true, ip := 0, frac := [5] } .pt = .ok (-32768) := by decide

example : printScaled 6554 = some { neg := false, ip := 0, frac := [1] } := by decide
example : scanNoUnits { neg := false, ip := 0, frac := [1] } = .ok 6554 := by decide
example : scanNoUnits { neg := true, ip := 16383, frac := [9, 9, 9, 9, 8] } = .ok (-maxDimen) := by decide
/-- Beyond the quantifier the value still prints, but does not scan back (overflow). -/
example : (printScaled 1073741824).map scanNoUnits = some .overflow := by decide

/-! ## The 64-bit kernels are Knuth's 32-bit routines -/

/-- `Scaled::xn_over_d` (i64) = §107 `xn_over_d` (15-bit halves) on quotient, remainder and
`arith_error`, for every 32-bit `x` (indeed every integer) and `0 ≤ n ≤ 2^16`, `0 < d ≤ 2^16`.
When `arith_error` is set Knuth's function value is a leftover (`g`) that callers discard. -/
theorem xn_over_d_eq_knuth (x n d : Int) (hn0 : 0 ≤ n) (hn : n ≤ 65536) (hd0 : 0 < d) (hd : d ≤ 65536) :
    (∃ q r, xnOverD x n d = .ok (q, r) ∧ Spec.xnOverD x n d = (q, r, false)) ∨
    (∃ g r, xnOverD x n d = .overflow ∧ Spec.xnOverD x n d = (g, r, true)) := by
  by_cases hx : 0 ≤ x
  · obtain ⟨g, hg⟩ := specXnOverD_nonneg x n d hx hn0 hd0
    rw [xnOverD_nonneg x n d hx hn0 hn hd0 hd, hg]
    by_cases hc : x * n / d > maxDimen
    · right; exact ⟨g, _, by rw [if_pos hc], by rw [if_pos hc]⟩
    · left; exact ⟨_, _, by rw [if_neg hc], by rw [if_neg hc]⟩
  · have hX : 0 < -x := by omega
    obtain ⟨g, hg⟩ := specXnOverD_neg (-x) n d hX hn0 hd0
    have hm := xnOverD_neg (-x) n d hX hn0 hn hd0 hd
    rw [Int.neg_neg] at hm hg
    rw [hm, hg]
    by_cases hc : -x * n / d > maxDimen
    · right; exact ⟨g, _, by rw [if_pos hc], by rw [if_pos hc]⟩
    · left; exact ⟨_, _, by rw [if_neg hc], by rw [if_neg hc]⟩

example : xnOverD 2147483647 65536 65536 = .overflow ∧ (Spec.xnOverD 2147483647 65536 65536).2.2 = true := by decide
example : xnOverD (-101) 7227 100 = .ok (-7299, -27) := by decide

/-- `Scaled::nx_plus_y` (i64, fixes/C06-b.patch) = §105 `nx_plus_y` on value and `arith_error`,
for all integers `x`, `n` and `|y| ≤ 2^30-1` (which is all TeX ever passes). -/
theorem nx_plus_y_eq_knuth (x n y : Int) (hy : -maxDimen ≤ y ∧ y ≤ maxDimen) :
    nxPlusY x n y = (if (Spec.nxPlusY n x y).err then .overflow else .ok (Spec.nxPlusY n x y).val) :=
  nxPlusY_eq x n y hy

example : nxPlusY (-2147483648) (-1) 0 = .overflow := by decide

/-! ## Integer constants -/

/-- `parse_constant`/`add_lsd` = §444–§445 for every digit string in radix 8, 10, 16: same
value, same "number too big" verdict (at most one error however long the string). -/
theorem scan_int_eq (radix : Int) (hr : radix = 10 ∨ radix = 8 ∨ radix = 16) (ds : List Nat)
    (hd : ∀ d ∈ ds, (d : Int) < radix) (neg : Bool) :
    Spec.scanInt neg radix ds = .ok (scanInt neg radix ds).1 (scanInt neg radix ds).2 0 := by
  have hc := scanConst_eq radix hr ds hd
  have hrange : 0 ≤ (scanConst radix ds).1 ∧ (scanConst radix ds).1 ≤ 2147483647 := by
    unfold scanConst
    cases ds with
    | nil => simp
    | cons d rest =>
      have hd0 : (d : Int) < radix := hd d (by simp)
      simp only []
      split
      · have := constLoop_range radix (by omega) rest d false (by omega) (by omega) (by simp)
        exact ⟨this.1, this.2.1⟩
      · have := constLoop_range radix (by omega) (d :: rest) 0 false (by omega) (by omega) (by simp)
        exact ⟨this.1, this.2.1⟩
  unfold Spec.scanInt scanInt
  rw [← hc]
  generalize scanConst radix ds = c at *
  obtain ⟨v, e⟩ := c
  simp only [] at hrange ⊢
  cases neg
  · simp [Spec.fits]; omega
  · have : wrap32 (-v) = -v := by unfold wrap32; omega
    simp [Spec.fits, this]; omega

/-- Which characters are digits of a constant, hence where it ends: `parse_constant`'s decoding =
TeX §445 for every character, both categories (letter / other) and each radix. In particular the
lower-case `a`–`f` are never digits, `8` and `9` are not octal digits, and upper-case `A`–`F`
are hexadecimal digits with either category. -/
theorem const_digit_eq (radix : Int) (hr : radix = 10 ∨ radix = 8 ∨ radix = 16) (c : Char) (letter : Bool) :
    constDigit radix c letter = Spec.constDigit radix c letter :=
  constDigit_eq radix hr c letter

example : constDigit 16 'f' true = none ∧ constDigit 16 'F' true = some 15 ∧ constDigit 16 'F' false = some 15 ∧
    constDigit 8 '8' false = none ∧ constDigit 10 'A' false = none := by decide
/-- C06-i at its witness: `1 .5pt` — the space ends the number, there is no fraction (the unfixed
code, `fracAfterSpace = true`, read 1.5pt). -/
example : (Text.parseDimen constDigit true false false false
      [.ch '1' false, .space, .ch '.' false, .ch '5' false, .ch 'p' true, .ch 't' true]).head = .const 10 [1] none ∧
    (Text.parseDimen constDigit true false false true
      [.ch '1' false, .space, .ch '.' false, .ch '5' false, .ch 'p' true, .ch 't' true]).head = .const 10 [1] (some [5]) := by
  decide

/-- Blanks before keywords (§407): `1true pt` is one point (C06-j: before the fix, `skip = false`,
`pt` was not found after the blank); `1fil l` is `1fill` in TeX (`skipL = true`) but `1fil` followed
by ` l` in the code (`skipL = false`, recorded deviation C06-k). -/
example : (Text.parseDimen constDigit true false false false
      [.ch '1' false, .ch 't' true, .ch 'r' true, .ch 'u' true, .ch 'e' true, .space, .ch 'p' true, .ch 't' true]).unit = .phys .pt ∧
    (Text.parseDimen constDigit false false false false
      [.ch '1' false, .ch 't' true, .ch 'r' true, .ch 'u' true, .ch 'e' true, .space, .ch 'p' true, .ch 't' true]).unit = .bad ∧
    (Text.parseDimen constDigit true true true false
      [.ch '1' false, .ch 'f' true, .ch 'i' true, .ch 'l' true, .space, .ch 'l' true]).unit = .fil 1 ∧
    (Text.parseDimen constDigit true false true false
      [.ch '1' false, .ch 'f' true, .ch 'i' true, .ch 'l' true, .space, .ch 'l' true]).unit = .fil 0 := by decide

/-- `"10bp` is sixteen big points: the `b` ends the constant. -/
example : (Text.parseDimen constDigit true false false true
    [.ch '"' false, .ch '1' false, .ch '0' false, .ch 'b' true, .ch 'p' true]).head = .const 16 [1, 0] none := by decide

/-- After an overflow the value is clamped to `2^31-1` (§445 `cur_val:=infinity`), never wrapped;
without overflow it is in `[0, 2^31-1]`. -/
theorem scan_int_clamp (radix : Int) (hr : 2 ≤ radix ∧ radix ≤ 16) (ds : List Nat)
    (hd : ∀ d ∈ ds, (d : Int) < radix) :
    0 ≤ (scanConst radix ds).1 ∧ (scanConst radix ds).1 ≤ 2147483647 ∧
      ((scanConst radix ds).2 = 1 → ds ≠ [] → (scanConst radix ds).1 = 2147483647) := by
  unfold scanConst
  cases ds with
  | nil => simp
  | cons d rest =>
    have hd0 : (d : Int) < radix := hd d (by simp)
    simp only []
    split
    · have := constLoop_range radix hr.1 rest d false (by omega) (by omega) (by simp)
      refine ⟨this.1, this.2.1, ?_⟩
      intro h _
      apply this.2.2
      revert h
      cases (constLoop radix rest (↑d) false).2 <;> simp
    · have := constLoop_range radix hr.1 (d :: rest) 0 false (by omega) (by omega) (by simp)
      refine ⟨this.1, this.2.1, ?_⟩
      intro h _
      apply this.2.2
      revert h
      cases (constLoop radix (d :: rest) 0 false).2 <;> simp

example : scanInt true 10 [2, 1, 4, 7, 4, 8, 3, 6, 4, 8] = (-2147483647, 1) := by decide
example : scanInt false 16 [7, 15, 15, 15, 15, 15, 15, 15] = (2147483647, 0) := by decide

/-! ## Units, dimensions -/

/-- `Scaled::new` = TeX §458 (`xn_over_d`, the fraction adjustment, `attach_fraction`,
`attach_sign`) for each of the 9 units, any integer part `0 ≤ ip ≤ 2^31-1` and any fraction
`0 ≤ f ≤ 2^16` (that is what `from_decimal_digits` can return): same value; `OverflowError`
exactly when TeX says "Dimension too large"; and never a panic — the two `expect`s in
`Scaled::new` are unreachable. -/
theorem scaled_new_eq_scan_dimen (u : TUnit) (ip f : Int) (hip : 0 ≤ ip ∧ ip ≤ 2147483647)
    (hf : 0 ≤ f ∧ f ≤ 65536) :
    (match scaledNew ip f u with
      | .ok s => Spec.SR.ok s 0 0 | .overflow => Spec.SR.ok maxDimen 1 0 | .panic => Spec.SR.undef)
      = Spec.units ip f false 0 (.phys u) :=
  scaledNew_eq u ip f hip.1 hip.2 hf.1 hf.2

theorem scaled_new_total (u : TUnit) (ip f : Int) (hip : 0 ≤ ip ∧ ip ≤ 2147483647)
    (hf : 0 ≤ f ∧ f ≤ 65536) : scaledNew ip f u ≠ .panic :=
  scaledNew_no_panic u ip f hip.1 hip.2 hf.1 hf.2

example : scaledNew 226 (fromDecimalDigits [7]) .inch = .ok 1073716184 ∧ scaledNew 227 0 .inch = .overflow := by decide
example : scaledNew 1073741823 65536 .sp = .ok 1073741823 := by decide

/-- `scan_and_apply_units` = TeX §453–§459 + `attach_fraction` + `attach_sign` for every kind of
unit: `fil`/`fill`/`filll` (with the error per surplus `l`), internal integers, dimensions and
glue, `em`/`ex`, the physical units, and a missing unit (error, `pt`). Same value, same error
count, same order. Excluded (decidable hypothesis): the recorded deviation C06-f. -/
theorem apply_units_eq_knuth (ip f : Int) (hip : 0 ≤ ip ∧ ip ≤ 2147483647) (hf : 0 ≤ f ∧ f ≤ 65536)
    (u : UnitSpec) (hex : negUnitOverflow ip f u = false) :
    (applyUnits ip f u).toSR = Spec.units ip f false 0 u :=
  applyUnits_eq ip f hip.1 hip.2 hf.1 hf.2 u hex

/-- `scan_dimen` = TeX §448–§460 for every sign string parity, head (constant in radix
8/10/16 with or without fraction, `.ddd`, internal integer, internal dimension) and unit: same
value, same number of errors ("number too big", "illegal unit", "dimension too large"), clamped
to `±max_dimen` exactly when TeX clamps. -/
theorem scan_dimen_eq_knuth (neg : Bool) (h : Head) (u : UnitSpec) (wf : h.WF)
    (hex : negUnitOverflow (coeff h).1 (coeff h).2 u = false) :
    (scanDimen neg h u).toSR = Spec.scanDimen neg h u :=
  scanDimen_eq neg h u wf hex

/-- `16383.99998pt` is the largest dimension; one more digit is too large and is clamped. -/
example : scanDimen true (.const 10 [1,6,3,8,3] (some [9,9,9,9,8])) (.phys .pt) = .ok { val := -1073741823, nerr := 0 } := by decide
example : scanDimen false (.const 10 [1,6,3,8,3] (some [9,9,9,9,9,9])) (.phys .pt) = .ok { val := 1073741823, nerr := 1 } := by decide
/-- C06-g at its witness (fixed model): `16383.999999fil` is too large. -/
example : scanDimen false (.const 10 [1,6,3,8,3] (some [9,9,9,9,9,9])) (.fil 0)
    = .ok { val := 1073741823, nerr := 1, order := 1 } := by decide
/-- C06-b/C09-b at its witness (fixed model): the internal integer `-2^31`, every unit. -/
example : ∀ u : TUnit, scanDimen false (.int (-2147483648)) (.phys u) = .ok { val := -1073741823, nerr := 1 } ∧
    Spec.scanDimen false (.int (-2147483648)) (.phys u) = .ok (-1073741823) 1 0 := by
  intro u; cases u <;> decide
/-- C06-c/C09-c at its witness (fixed model). -/
example : scanDimen false (.const 10 [0] (some [9,9,9,9,9,9])) (.internal 2147483647)
    = .ok { val := 1073741823, nerr := 1 } := by decide
/-- C06-e at its witness (fixed model): an internal dimension beyond `max_dimen`. -/
example : scanDimen false (.dimen 1073741824) .bad = .ok { val := 1073741823, nerr := 1 } := by decide
/-- The recorded deviation C06-f at its witness: `\dimen3=-1pt \dimen0=20000\dimen3` — the
code (and so the model) gives `-max_dimen`, TeX `+max_dimen`; the hypothesis of
`scan_dimen_eq_knuth` is false exactly here. -/
example : scanDimen false (.const 10 [2,0,0,0,0] none) (.internal (-65536)) = .ok { val := -1073741823, nerr := 1 } ∧
    Spec.scanDimen false (.const 10 [2,0,0,0,0] none) (.internal (-65536)) = .ok 1073741823 1 0 ∧
    negUnitOverflow 20000 0 (.internal (-65536)) = true := by decide

/-! ## Glue -/

/-- `\advance` on glue (with fixes/C06-d.patch) = TeX §1239: widths add (wrapping); a zero
stretch/shrink of the summand has order normal; equal orders add, otherwise the higher order
wins unless the register's higher-order component is zero. -/
theorem advance_glue_eq_knuth (a b : Glue) : (advanceGlue a b).toAR = Spec.advanceGlue a b :=
  advanceGlue_eq a b

/-- C06-d at its witness (fixed model): `1pt plus 0fil` advanced by `plus 5pt` keeps the 5pt. -/
example : advanceGlue ⟨65536, 0, 1, 0, 0⟩ ⟨0, 327680, 0, 0, 0⟩ = .set ⟨65536, 327680, 0, 0, 0⟩ := by decide

/-- `\multiply` on glue = §1240: `nx_plus_y` on each of the three components, any failure is
one "arithmetic overflow" and the register is unchanged. -/
theorem multiply_glue_eq (a : Glue) (n : Int) : (multiplyGlue a n).toAR = Spec.multiplyGlue a n :=
  multiplyGlue_eq a n

/-- `\divide` on glue = §1240: `x_over_n` on each component; excluded as for integers:
a component `-2^31` divided by `-1`. -/
theorem divide_glue_eq (a : Glue) (n : Int)
    (hw : -2147483648 ≤ a.width ∧ a.width ≤ 2147483647)
    (hst : -2147483648 ≤ a.stretch ∧ a.stretch ≤ 2147483647)
    (hsh : -2147483648 ≤ a.shrink ∧ a.shrink ≤ 2147483647)
    (hex : ¬ (n = -1 ∧ (a.width = -2147483648 ∨ a.stretch = -2147483648 ∨ a.shrink = -2147483648))) :
    (divideGlue a n).toAR = Spec.divideGlue a n :=
  divideGlue_eq a n hw hst hsh hex

example : divideGlue ⟨-7, 7, 1, -2147483648, 0⟩ 2 = .set ⟨-3, 3, 1, -1073741824, 0⟩ := by decide

/-- The glue round trip: what `\\the\\skip` prints — width `…pt`, then ` plus …` and ` minus …`
only if non-zero, each with `pt`, `fil`, `fill` or `filll` — is scanned by `Glue::parse_impl` back
to the identical glue, with no error. For every glue whose components are legal dimensions and
whose zero stretch/shrink has order normal (what scanning can produce). The integer parts are
rendered by their decimal digits (`dec5`, = `toString`, see `printed_integer_part_digits`). -/
theorem glue_print_scan_roundtrip (g : Glue)
    (hw : -maxDimen ≤ g.width ∧ g.width ≤ maxDimen) (hst : -maxDimen ≤ g.stretch ∧ g.stretch ≤ maxDimen)
    (hsh : -maxDimen ≤ g.shrink ∧ g.shrink ≤ maxDimen) (ho1 : g.stretchOrder ≤ 3) (ho2 : g.shrinkOrder ≤ 3)
    (hn1 : g.stretch = 0 → g.stretchOrder = 0) (hn2 : g.shrink = 0 → g.shrinkOrder = 0) :
    scanGlue
      (scanGlueWidth (Spec.printScaled g.width).neg
        (.const 10 (dec5 (Spec.printScaled g.width).ip) (some (Spec.printScaled g.width).frac)) (.phys .pt))
      (if g.stretch = 0 then none else some (scanDimen (Spec.printScaled g.stretch).neg
        (.const 10 (dec5 (Spec.printScaled g.stretch).ip) (some (Spec.printScaled g.stretch).frac))
        (unitOfOrder g.stretchOrder)))
      (if g.shrink = 0 then none else some (scanDimen (Spec.printScaled g.shrink).neg
        (.const 10 (dec5 (Spec.printScaled g.shrink).ip) (some (Spec.printScaled g.shrink).frac))
        (unitOfOrder g.shrinkOrder)))
      = some (g, 0) := by
  rw [width_roundtrip g.width hw]
  obtain ⟨w, st, so, sh, sho⟩ := g
  simp only [] at *
  by_cases h1 : st = 0
  · by_cases h2 : sh = 0
    · simp [scanGlue, h1, h2, hn1 h1, hn2 h2]
    · rw [if_pos h1, if_neg h2, component_roundtrip sh hsh sho ho2]
      simp [scanGlue, h1, hn1 h1]
  · by_cases h2 : sh = 0
    · rw [if_neg h1, if_pos h2, component_roundtrip st hst so ho1]
      simp [scanGlue, h2, hn2 h2]
    · rw [if_neg h1, if_neg h2, component_roundtrip st hst so ho1, component_roundtrip sh hsh sho ho2]
      simp [scanGlue]

/-- The integer part of a printed legal dimension (`< 16384`) is rendered by `toString`; its
digits are `dec5` (kernel-evaluated for all 16 384 values), which `parse_constant` reads back
as the same number without error. -/
theorem printed_integer_part_digits (n : Nat) (h : n < 16384) :
    (Nat.toDigits 10 n).map Char.toNat = (dec5 n).map (48 + ·) ∧ scanConst 10 (dec5 n) = ((n : Int), 0) := by
  have := decOK_all n h
  simp only [decOK, beq_iff_eq] at this
  exact ⟨this, scanConst_dec5 n (by omega)⟩

example : scanGlue (scanGlueWidth false (.const 10 [1] (some [0])) (.phys .pt))
    (some (scanDimen true (.const 10 [1, 6, 3, 8, 3] (some [9, 9, 9, 9, 8])) (.fil 2))) none
    = some (⟨65536, -1073741823, 3, 0, 0⟩, 0) := by decide

/-! ## The text level: the kernel theorems lifted to what the user writes

`Model/C06Text.lean` reads a list of character tokens (category letter / other, space, a control
sequence): signs and blanks, radix prefixes, digits, decimal point, the optional space, `true`,
the units and `fil` + `l`s in either case, `plus` / `minus`. The driver executes it on the text of
every `tint`/`tdim`/`tglue`/`tidx` case, with `parse_constant`'s digit decoding for M and §445's
for S, and the harness compares value, errors and the text left over with the real scanner. -/

/-- Integers as text: M and S cut every text identically (sign parity, radix, digits, what is
left), and on the digits they cut the value and the error verdict agree (§440–§445). -/
theorem scan_int_text_eq_knuth (t : List Text.Tok) :
    Text.parseInt constDigit t = Text.parseInt Spec.constDigit t ∧
    ∀ r ds, (Text.parseInt constDigit t).const = some (r, ds) →
      Spec.scanInt (Text.parseInt constDigit t).neg r ds
        = .ok (scanInt (Text.parseInt constDigit t).neg r ds).1 (scanInt (Text.parseInt constDigit t).neg r ds).2 0 := by
  refine ⟨parseInt_congr t, ?_⟩
  intro r ds h
  simp only [Text.parseInt] at h
  split at h
  · rename_i r' ds' rest hc
    simp only [Option.some.injEq, Prod.mk.injEq] at h
    obtain ⟨rfl, rfl⟩ := h
    obtain ⟨hr, hd⟩ := parseConst_digits _ _ _ _ hc
    exact scan_int_eq r' hr ds' hd _
  · simp at h

/-- Dimensions as text, **for every token list and with no exclusion**: M and S cut the text
identically (sign, head, unit, remainder) and `scan_dimen` on the parts = TeX §448–§460: same
value, same number of errors, same order. (A text cannot denote a negative internal unit, so
the recorded deviation C06-f does not arise; `em`/`ex` are positive.) -/
theorem scan_dimen_text_eq_knuth (skip skipL glue fas : Bool) (t : List Text.Tok) :
    Text.parseDimen constDigit skip skipL glue fas t = Text.parseDimen Spec.constDigit skip skipL glue fas t ∧
    (scanDimen (Text.parseDimen constDigit skip skipL glue fas t).neg (Text.parseDimen constDigit skip skipL glue fas t).head
        (Text.parseDimen constDigit skip skipL glue fas t).unit).toSR
      = Spec.scanDimen (Text.parseDimen constDigit skip skipL glue fas t).neg (Text.parseDimen constDigit skip skipL glue fas t).head
        (Text.parseDimen constDigit skip skipL glue fas t).unit :=
  ⟨parseDimen_congr skip skipL glue fas t, scanDimen_text skip skipL glue fas t⟩

/-- Glue as text, for every token list: same cut, and `Glue::parse_impl` on the parts = §461
(width, stretch, shrink, both orders, the sum of the errors). -/
theorem scan_glue_text_eq_knuth (skip skipL fas : Bool) (t : List Text.Tok) :
    Text.parseGlue constDigit skip skipL fas t = Text.parseGlue Spec.constDigit skip skipL fas t ∧
    scanGlue
        (scanGlueWidth (Text.parseGlue constDigit skip skipL fas t).width.neg (Text.parseGlue constDigit skip skipL fas t).width.head
          (Text.parseGlue constDigit skip skipL fas t).width.unit)
        ((Text.parseGlue constDigit skip skipL fas t).plus.map fun d => scanDimen d.neg d.head d.unit)
        ((Text.parseGlue constDigit skip skipL fas t).minus.map fun d => scanDimen d.neg d.head d.unit)
      = Spec.scanGlue
        (Spec.scanGlueWidth (Text.parseGlue constDigit skip skipL fas t).width.neg (Text.parseGlue constDigit skip skipL fas t).width.head
          (Text.parseGlue constDigit skip skipL fas t).width.unit)
        ((Text.parseGlue constDigit skip skipL fas t).plus.map fun d => Spec.scanDimen d.neg d.head d.unit)
        ((Text.parseGlue constDigit skip skipL fas t).minus.map fun d => Spec.scanDimen d.neg d.head d.unit) :=
  ⟨parseGlue_congr skip skipL fas t, scanGlue_text skip skipL fas t⟩

/-- `\the` then scan, at the text level: the tokens `\the` writes for a legal dimension — or for
a glue component with `pt`/`fil`/`fill`/`filll` — are cut by the scanner into exactly the printed
parts with nothing left over, and scan to the identical value, no error, the same order. For all
`2^31-1` values (fraction table + decimal-digit table, lifted through the token printer). -/
theorem the_text_roundtrip (skip skipL : Bool) (s : Int) (h : -maxDimen ≤ s ∧ s ≤ maxDimen) (gl : Bool) (k : Nat) (hk : k ≤ 3)
    (hg : gl = true ∨ k = 0) :
    (Text.parseDimen constDigit skip skipL gl false (Text.renderToks (Spec.printScaled s) ++ Text.unitToks k)).rest = [] ∧
    scanDimen
        (Text.parseDimen constDigit skip skipL gl false (Text.renderToks (Spec.printScaled s) ++ Text.unitToks k)).neg
        (Text.parseDimen constDigit skip skipL gl false (Text.renderToks (Spec.printScaled s) ++ Text.unitToks k)).head
        (Text.parseDimen constDigit skip skipL gl false (Text.renderToks (Spec.printScaled s) ++ Text.unitToks k)).unit
      = .ok { val := s, nerr := 0, order := k } := by
  rw [parseDimen_rendered skip skipL s h gl k hk hg]
  exact ⟨rfl, component_roundtrip s h k hk⟩

/-- `\\the\\skip` then scan, at the text level: the tokens `Display for Glue` writes (width `pt`,
` plus …`/` minus …` only if non-zero, with `pt`/`fil`/`fill`/`filll`) are cut by
`Glue::parse_impl` into exactly the printed components with nothing left over, and scan to the
identical glue with no error — for every glue whose components are legal dimensions and whose
zero stretch/shrink has order normal. -/
theorem the_glue_text_roundtrip (skip skipL : Bool) (g : Glue)
    (hw : -maxDimen ≤ g.width ∧ g.width ≤ maxDimen) (hst : -maxDimen ≤ g.stretch ∧ g.stretch ≤ maxDimen)
    (hsh : -maxDimen ≤ g.shrink ∧ g.shrink ≤ maxDimen) (ho1 : g.stretchOrder ≤ 3) (ho2 : g.shrinkOrder ≤ 3)
    (hn1 : g.stretch = 0 → g.stretchOrder = 0) (hn2 : g.shrink = 0 → g.shrinkOrder = 0) :
    (Text.parseGlue constDigit skip skipL false (Text.renderGlueToks g)).rest = [] ∧
    scanGlue
        (scanGlueWidth (Text.parseGlue constDigit skip skipL false (Text.renderGlueToks g)).width.neg
          (Text.parseGlue constDigit skip skipL false (Text.renderGlueToks g)).width.head
          (Text.parseGlue constDigit skip skipL false (Text.renderGlueToks g)).width.unit)
        ((Text.parseGlue constDigit skip skipL false (Text.renderGlueToks g)).plus.map fun d => scanDimen d.neg d.head d.unit)
        ((Text.parseGlue constDigit skip skipL false (Text.renderGlueToks g)).minus.map fun d => scanDimen d.neg d.head d.unit)
      = some (g, 0) := by
  obtain ⟨Rw, Rp, Rm, e⟩ := parseGlue_rendered skip skipL g hw hst hsh ho1 ho2
  rw [e]
  refine ⟨rfl, ?_⟩
  have key := glue_print_scan_roundtrip g hw hst hsh ho1 ho2 hn1 hn2
  simp only [PD]
  by_cases h1 : g.stretch = 0 <;> by_cases h2 : g.shrink = 0 <;>
    simp only [h1, h2, if_true, if_false, Option.map_none, Option.map_some] at key ⊢ <;> exact key

example : Text.toksString (Text.renderGlueToks ⟨65536, 131072, 2, -3, 0⟩) = "1.0pt plus 2.0fill minus -0.00005pt" := by
  decide

example : Text.toksString (Text.renderToks (Spec.printScaled (-98304)) ++ Text.unitToks 0) = "-1.5pt" := by decide
example : Text.toksString (Text.renderToks (Spec.printScaled 1073741823) ++ Text.unitToks 3) = "16383.99998filll" := by decide

/-! ## Programs of primitives on one register (stream `seq`) -/

/-- Invariant: whatever sequence of `\\advance`, `\\multiply`, `\\divide` (any operands) is applied
to a `\\count` or a `\\dimen` register that holds a 32-bit value, it holds a 32-bit value after
every step — never a value out of range, and (the model has no other outcome) never a crash. The
number of errors is at most the number of primitives. -/
theorem arith_program_invariant (ops : List ArithOp) (a : Int) (ha : inRange32 a) :
    inRange32 (runReg stepInt a ops).1 ∧ inRange32 (runReg stepDimen a ops).1 ∧
    (runReg stepInt a ops).2 ≤ ops.length ∧ (runReg stepDimen a ops).2 ≤ ops.length :=
  ⟨runReg_range stepInt stepInt_range ops a ha, runReg_range stepDimen stepDimen_range ops a ha,
   runReg_errors_le stepInt ops a, runReg_errors_le stepDimen ops a⟩

/-- "Error and no change": a primitive that reports an error leaves the register as it was. -/
theorem arith_error_no_change (a : Int) (op : ArithOp) (v : Int) :
    (stepInt a op = (v, true) → v = a) ∧ (stepDimen a op = (v, true) → v = a) :=
  ⟨stepInt_error_unchanged a op v, stepDimen_error_unchanged a op v⟩

/-- A whole program on a `\\count` register = TeX (§1236–§1238) step by step — final value and
number of errors — provided no step is TeX's undefined `-2^31 / -1` (`runDefined`, decidable). -/
theorem arith_program_eq_knuth (ops : List ArithOp) (a : Int) (ha : inRange32 a)
    (hd : runDefined a ops = true) :
    Spec.runReg Spec.stepInt a ops = some (runReg stepInt a ops) :=
  runInt_eq_spec ops a ha hd

/-- `\\multiply` and `\\divide` keep a legal dimension legal (`|d| ≤ 2^30-1`): the only way a
`\\dimen` register leaves TeX's range is `\\advance`, which wraps silently by design. -/
theorem multiply_divide_keep_legal (a : Int) (ha : -maxDimen ≤ a ∧ a ≤ maxDimen) (op : ArithOp)
    (hop : ∀ b, op ≠ .advance b) :
    -maxDimen ≤ (stepDimen a op).1 ∧ (stepDimen a op).1 ≤ maxDimen :=
  stepDimen_legal a ha op hop

example : runReg stepInt 5 [.multiply 1000000, .multiply 1000000, .advance 7, .divide 0, .divide (-2)] = (-2500003, 2) := by
  decide
example : runDefined 2147483647 [.advance 1, .divide (-1)] = false ∧
    Spec.runReg Spec.stepInt 2147483647 [.advance 1, .divide (-1)] = none := by decide
example : (stepDimen 1073741823 (.advance 1)).1 = 1073741824 := by decide

/-! ## Two equivalent mutants of the print loop -/

/-- The mutation sweep could not kill `delta > ONE` → `delta >= ONE` and `f <= delta` → `f < delta`
in `display_no_units`, separately or together: they are equivalent on the whole domain. For every
fraction `0 ≤ fr < 2^16` (hence for every scaled value) each of the four variants of the digit loop
prints exactly the digits of the original. -/
theorem print_loop_mutants_equivalent (ge lt : Bool) (fr : Nat) (h : fr < 65536) :
    printFracV ge lt (fr : Int) = printFrac (fr : Int) := by
  have := mutOK_all fr h
  simp only [mutOK, Bool.and_eq_true, beq_iff_eq] at this
  obtain ⟨⟨⟨h1, h2⟩, h3⟩, h4⟩ := this
  cases ge <;> cases lt
  · exact h1
  · exact h3
  · exact h2
  · exact h4

example : printFracV true true 1 = some [0, 0, 0, 0, 2] ∧ printFrac 1 = some [0, 0, 0, 0, 2] := by decide

/-! ## Totality (shared with C09) -/

/-- `scan_dimen` answers a value within `±max_dimen` and an error count on every 32-bit input
(including the internal integer `-2^31` and over-large internal units): never `panic`. -/
theorem scan_dimen_total (neg : Bool) (h : Head) (u : UnitSpec) (wf : h.WF32) :
    ∃ sc, scanDimen neg h u = .ok sc ∧ -1073741823 ≤ sc.val ∧ sc.val ≤ 1073741823 :=
  scanDimen_total neg h u wf

/-- An integer constant always yields a 32-bit value. -/
theorem scan_int_total (neg : Bool) (radix : Int) (hr : radix = 10 ∨ radix = 8 ∨ radix = 16)
    (ds : List Nat) (hd : ∀ d ∈ ds, (d : Int) < radix) :
    -2147483647 ≤ (scanInt neg radix ds).1 ∧ (scanInt neg radix ds).1 ≤ 2147483647 := by
  have := scan_const_range radix hr ds hd
  unfold scanInt
  generalize scanConst radix ds = c at *
  obtain ⟨v, e⟩ := c
  simp only [] at this ⊢
  cases neg
  · simp; omega
  · have : wrap32 (-v) = -v := by unfold wrap32; omega
    simp [this]; omega

/-- `display_no_units` does not panic on any integer at all (not only legal dimensions). -/
theorem print_total (s : Int) : printScaled s ≠ none := by
  intro h
  by_cases hs : 0 ≤ s
  · rw [printScaled_nonneg s hs] at h
    obtain ⟨ds, h1, _⟩ := fracOK_unpack _ (fracOK_all (s % 65536).natAbs (by omega))
    rw [h1] at h; simp at h
  · have := printScaled_neg (-s) (by omega)
    rw [Int.neg_neg] at this
    rw [this] at h
    obtain ⟨ds, h1, _⟩ := fracOK_unpack _ (fracOK_all (-s % 65536).natAbs (by omega))
    rw [h1] at h; simp at h

/-- The arithmetic kernels answer `ok` or `overflow`, never `panic`, on their domains. -/
theorem nx_plus_y_total (x n y : Int) : nxPlusY x n y ≠ .panic := by
  unfold nxPlusY
  split
  · simp
  · simp only []; split <;> simp

theorem xn_over_d_total (x n d : Int) (hn : n ≤ 65536) (hd : 0 < d ∧ d ≤ 65536) : xnOverD x n d ≠ .panic := by
  unfold xnOverD
  rw [if_neg (by omega), if_neg (by omega)]
  simp only []
  split <;> simp

/-! ## `\advance`, `\multiply`, `\divide` -/

/-- `\advance` wraps silently: the result is the sum reduced into `[-2^31, 2^31)`, and is the
exact sum whenever that fits. Same function as the specification's. -/
theorem advance_wraps (a b : Int) :
    advanceInt a b = .set (wrap32 (a + b)) ∧ Spec.advanceInt a b = .set (wrap32 (a + b)) ∧
      -2147483648 ≤ wrap32 (a + b) ∧ wrap32 (a + b) ≤ 2147483647 ∧
      (wrap32 (a + b) - (a + b)) % 4294967296 = 0 ∧
      (-2147483648 ≤ a + b ∧ a + b ≤ 2147483647 → wrap32 (a + b) = a + b) := by
  refine ⟨rfl, rfl, ?_, ?_, ?_, ?_⟩ <;> unfold wrap32 <;> omega

/-- `\multiply` on a `\count` (with fixes/C06-a.patch) = TeX's `mult_integers` (§105 with
`max_answer = 2^31-1`), for all integers: the product when `|a·b| ≤ 2^31-1`, otherwise an error
that leaves the register unchanged — in particular `-2^31` is an overflow. -/
theorem multiply_eq_mult_integers (a b : Int) :
    (match multiplyInt a b with | .set v => Spec.AR.set v | .error => Spec.AR.error)
      = Spec.multiplyInt a b :=
  multiplyInt_eq a b

/-- The defect C06-a at its witness: before the fix the code returned `-2^31`
(`i32::checked_mul` succeeds) where TeX reports overflow. -/
example : Spec.multiplyInt (-1073741824) 2 = .error ∧ multiplyInt (-1073741824) 2 = .error := by decide
example : multiplyInt 46341 (-46340) = .set (-2147441940) := by decide

/-- `\multiply` on a `\dimen` = `nx_plus_y(x, n, 0)` of §1240, bound `2^30-1`. -/
theorem multiply_dimen_eq (a n : Int) :
    (match multiplyDimen a n with | .set v => Spec.AR.set v | .error => Spec.AR.error)
      = Spec.multiplyDimen a n := by
  have hM : maxDimen = 1073741823 := rfl
  unfold multiplyDimen scaledCheckedMul Spec.multiplyDimen
  rw [nxPlusY_eq a n 0 (by omega)]
  -- `Spec.nxPlusY a n 0` multiplies in the other order; both are exact (multAndAdd_exact)
  rw [Spec.nxPlusY, Spec.nxPlusY, multAndAdd_exact n a 0 1073741823 (by omega) (by omega),
    multAndAdd_exact a n 0 1073741823 (by omega) (by omega), Int.mul_comm n a]
  by_cases ha : a = 0
  · subst ha; by_cases hn : n = 0
    · subst hn; simp
    · simp [hn]
  by_cases hn : n = 0
  · subst hn; simp [ha]
  simp only [if_neg ha, if_neg hn]
  simp only [Int.add_zero]
  by_cases hc : (-1073741823 ≤ a * n ∧ a * n ≤ 1073741823)
  · rw [if_pos hc]; simp
  · rw [if_neg hc]; simp

/-- `\divide` truncates toward zero, exactly as `x_over_n` (§106); division by zero is an
error that leaves the register unchanged. The one excluded pair is `-2^31 / -1`, where TeX
itself has no defined result (it negates `-2^31`); the code reports "division by zero" there. -/
theorem divide_trunc_zero (a b : Int) (ha : -2147483648 ≤ a ∧ a ≤ 2147483647)
    (hx : ¬ (a = -2147483648 ∧ b = -1)) :
    (match divideInt a b with | .set v => Spec.AR.set v | .error => Spec.AR.error) = Spec.divide a b := by
  unfold divideInt checkedDiv Spec.divide
  by_cases hb : b = 0
  · subst hb; simp [Spec.xOverN]
  · rw [if_neg hb, if_neg hx]
    have hv := tdiv_cases a b hb
    have hf := xOverN_fits a b ha hb hx
    have he : (Spec.xOverN a b).err = false := by
      unfold Spec.xOverN; rw [if_neg hb]; simp only []; split <;> split <;> rfl
    simp only [he, hv]
    have : Spec.fits (Spec.xOverN a b).val = true := by simp [Spec.fits]; omega
    simp [this]

example : divideInt (-7) 2 = .set (-3) ∧ divideInt 7 (-2) = .set (-3) ∧ divideInt (-7) (-2) = .set 3 := by decide
example : divideInt 5 0 = .error ∧ Spec.divide 5 0 = .error := by decide
/-- The stated boundary. -/
example : divideInt (-2147483648) (-1) = .error ∧ Spec.divide (-2147483648) (-1) = .undef := by decide

end C06
