import TexcraftModel.Lemmas.C14
import TexcraftModel.Lemmas.C14Words
import TexcraftModel.Lemmas.C14Recon
import TexcraftModel.Lemmas.C14Total
import TexcraftModel.Lemmas.C14List

/-!
# C14 — property theorems

* `discovery_complete`         the words the (fixed) loop tries = one declarative clause per glue node
* `every_glue_gets_its_word`   corollary: no glue node is ever swallowed (C14-a)
* `index_iter_spec`            `IndexIter` + the hyphen-minimum clamping = "at least max(1,lhm) letters
                               before the break and at least max(1,rhm) after it"
* `disc_invariants_conserve`   P1 ∧ P2 (decidable, evaluated on every real output) ⇒ for every choice of
                               breaks the reader sees the letters of the input
* `p1_unbroken`                P1 ⇒ with no break taken, node for node the input
* `validated_run_conserves`    what a run that passes the driver's check establishes
* `C14_full_statement`         (a `def`, NOT proved) the property for the real reconstitution

The ligature reconstitution itself (TeX §903–§918) is validated per run (P1, P2, positions),
not proved: see `notes/C14.md`.
-/
namespace C14

/-! ## Word discovery -/

/-- **Word discovery is complete and exact.** For every horizontal list, the words the fixed
code tries (`findWords`: the `while` loop of `hyphenate_impl` with its index juggling — start at
a glue, step over non-letters / font kerns / whatsits, accumulate a same-font run of at most 63
letters, test the terminating node, resume after the word or after the failed search) are, in
order, exactly the words `specAt` describes for each glue node on its own: the first letter
after the glue and any skippable nodes, the longest run of word nodes of that font with at most
63 letters, rejected only if a box, rule, discretionary or math node follows the run's trailing
characters. The fuel given by `findWords` suffices (`scan_eq_specFrom` holds for any larger fuel). -/
theorem discovery_complete (l : List Item) : findWords l = specWords l := by
  unfold findWords specWords
  rw [scan_eq_specFrom (l.length + 1) 0 l (by omega)]
  simp [specFrom]

/-- Corollary (this is what C14-a violates): every glue node of the list — also one that ends
the unsuccessful search started at an earlier glue, as after the letterless token `3.0` — gets
its own search, and the word found for it is tried. -/
theorem every_glue_gets_its_word (l : List Item) (g : Nat) (w : Word) (hg : g < l.length)
    (hw : specAt g (l.drop g) = some w) : w ∈ findWords l := by
  rw [discovery_complete]
  simp only [specWords, List.mem_filterMap, List.mem_range]
  exact ⟨g, hg, hw⟩

/-- `x 3.0 Contents` (cmr10: `x glue 3 . 0 glue C o n kern t e n kern t s`). -/
private def exContents : List Item :=
  [.char 120 0, .other .glue [1], .char 51 0, .char 46 0, .char 48 0, .other .glue [1],
   .char 67 0, .char 111 0, .char 110 0, .kern 0 (-18205), .char 116 0, .char 101 0, .char 110 0,
   .kern 0 (-18205), .char 116 0, .char 115 0]

/-- The fixed code tries `Contents` … -/
example : findWords exContents = [⟨6, 10, 0, [67, 111, 110, 116, 101, 110, 116, 115]⟩] := by decide
example : specAt 5 (exContents.drop 5) = some ⟨6, 10, 0, [67, 111, 110, 116, 101, 110, 116, 115]⟩ := by decide
/-- … the code before `fixes/C14-a.patch` (its `Abort` arm consumes the aborting glue) does not:
`discovery_complete` is FALSE for the faithful model of the unpatched code. -/
example : findWordsPrefix exContents = [] := by decide
example : findWordsPrefix exContents ≠ specWords exContents := by decide

/-- Other branches, concretely: a word is not tried before an hbox, a 64-letter run is cut at 63,
a font change ends the word. -/
example : findWords [.other .glue [], .char 97 0, .char 98 0, .other .hbox []] = [] := by decide
example : findWords [.other .glue [], .char 97 0, .char 98 1, .other .penalty [0]]
    = [⟨1, 1, 0, [97]⟩] := by decide
example : (findWords (.other .glue [] :: List.replicate 64 (.char 97 0))).map (fun w => (w.nodes, w.letters.length))
    = [(63, 63)] := by decide

/-! ## Hyphen minimums -/

/-- `IndexIter` (as coded: a recursive `next` that skips) with `min = max(1,lhm)` and
`max = len.saturating_sub(max(1,rhm))` yields exactly the raw Liang positions that leave at
least `max 1 lhm` letters before and `max 1 rhm` letters after the break, in order. For every
`lhm`, `rhm` (negative and zero included), every length and every raw list. -/
theorem index_iter_spec (lhm rhm : Int) (len : Nat) (raw : List Nat) :
    wordPositions lhm rhm len raw = specPositions lhm rhm len raw := by
  unfold wordPositions specPositions
  rw [drain_eq_filter]
  apply List.filter_congr
  intro p _
  simp only [inRange, effMin]
  by_cases h1 : lhm ≤ 0 <;> by_cases h2 : rhm ≤ 0 <;> simp only [h1, h2, if_true, if_false] <;>
    (rw [Bool.eq_iff_iff]; simp only [decide_eq_true_eq, Bool.and_eq_true]; omega)

example : wordPositions 2 3 9 [1, 3, 5, 7, 8] = [3, 5] := by decide
example : wordPositions 0 (-4) 4 [0, 1, 2, 3, 4] = [1, 2, 3] := by decide
example : wordPositions 2 3 4 [1, 2, 3] = [] := by decide

/-! ## Conservation -/

/-- **Conservation meta-theorem.** Let `marks` select nodes of the output `out`. If
P1 (the marked nodes are discretionaries and deleting them gives the input `inp` back, node for
node) and P2 (at each marked discretionary the pre-break letters minus the hyphen followed by the
post-break letters are the letters of the `replace_count` original nodes it covers) hold, then
for EVERY choice `taken` of breaks the text rendered from the output carries exactly the letters
of the input, in order. P1 and P2 are the decidable checks the driver runs on every real output. -/
theorem disc_invariants_conserve (marks taken : List Bool) (out inp : List Item)
    (h1 : P1 marks out inp = true) (h2 : P2 marks out = true) (hl : taken.length = out.length) :
    render marks taken out 0 = lettersL inp := by
  simp only [P1, Bool.and_eq_true, decide_eq_true_eq] at h1
  have := render_invariant out marks taken 0 h2 h1.1 hl (by omega) (by simp)
  simpa [lettersL_nil, h1.2] using this

/-- What one validated run establishes: if the driver's alignment of the real output against the
input succeeds and P2 holds for it, then whatever breaks the line breaker takes, the text is the
input's. (`align` succeeding already implies P1: `align_sound`.) -/
theorem validated_run_conserves (out inp : List Item) (marks taken : List Bool)
    (ha : align inp out = some marks) (h2 : P2 marks out = true) (hl : taken.length = out.length) :
    render marks taken out 0 = lettersL inp :=
  disc_invariants_conserve marks taken out inp (align_sound out inp marks ha) h2 hl

/-- The property at full strength, for a function `impl lhm rhm liang inp` standing for
`Hyphenator::hyphenate` (`liang` = the raw Liang positions of a word): some marking of the
output satisfies P1 and P2 and the inserted discretionaries offer exactly the allowed positions
of the words of `specWords`. **Not proved** — there is no Lean model of the ligature
reconstitution (TeX §903–§918) to instantiate `impl` with. The driver evaluates the body of this
statement on every real output instead (`chk`), with the exceptions listed as known findings
C14-f, C14-g (P1 near word boundaries) and C14-h (positions skipped while synchronising). -/
def C14_full_statement (impl : Int → Int → (List Nat → List Nat) → List Item → List Item) : Prop :=
  ∀ (lhm rhm : Int) (liang : List Nat → List Nat) (inp : List Item),
    ∃ marks : List Bool,
      P1 marks (impl lhm rhm liang inp) inp = true ∧ P2 marks (impl lhm rhm liang inp) = true ∧
      ((discPositions marks (impl lhm rhm liang inp) 0).map (·.1)).Perm
        (expectedPositions inp (specWords inp)
          ((specWords inp).map (fun w => specPositions lhm rhm w.letters.length (liang w.letters))))

/-- With no break taken nothing at all changed: P1 is literally "delete the inserted
discretionaries and get the input, node for node". -/
theorem p1_unbroken (marks : List Bool) (out inp : List Item) (h1 : P1 marks out inp = true) :
    erase marks out = inp := by
  simp only [P1, Bool.and_eq_true, decide_eq_true_eq] at h1
  exact h1.2

/-- Non-vacuity: "dif-fi-cult" in cmr10 as the real pass leaves it (`di`, disc(`f-`|`fi`|1),
lig `ffi`, disc(`-`||0), `cult`); both breaks, one, or none taken. -/
private def exOut : List Item :=
  [.char 100 0, .char 105 0,
   .disc [.char 102 0, .char 45 0] [.lig 12 0 [102, 105] false false] 1,
   .lig 14 0 [102, 102, 105] false false,
   .disc [.char 45 0] [] 0,
   .char 99 0, .char 117 0, .char 108 0, .char 116 0]
private def exInp : List Item :=
  [.char 100 0, .char 105 0, .lig 14 0 [102, 102, 105] false false,
   .char 99 0, .char 117 0, .char 108 0, .char 116 0]
private def exMarks : List Bool := [false, false, true, false, true, false, false, false, false]

example : align exInp exOut = some exMarks := by decide
example : P1 exMarks exOut exInp = true ∧ P2 exMarks exOut = true := by decide
example : render exMarks [false, false, true, false, true, false, false, false, false] exOut 0
    = [100, 105, 102, 102, 105, 99, 117, 108, 116] := by decide
/-- P2 is not vacuous: a post-break that loses the `i` is rejected. -/
example : P2 [true, false] [.disc [.char 102 0, .char 45 0] [.char 102 0] 1, .lig 14 0 [102, 102, 105] false false] = false := by
  decide

/-! ## The reconstitution model (`Model/C14Recon.lean`)

`rebuildWord eng font s rbo dlb pos` transcribes l.290–553 of `hyphenate_impl` over an abstract
lig/kern engine `eng` (`run` = `run_with_options` with `is_separation_point()` after every item,
`hasRepl` = `has_replacement`). The only law of the engine the theorems need is C05's `spell`
(`EngineOK`); `engineOfProgram_ok` shows that C05's model of a compiled program has it for every
program, also with `right_boundary_override` and `disable_left_boundary`. `none` = the Rust code
would panic or not terminate; the theorems are about the runs that return. -/

/-- The engine built from C05's model of `CompiledProgram::compile` + `RunIter` satisfies the law,
for every lig/kern program (loops, redirects, boundary rules, anything). -/
theorem c05_engine_ok (p : C05.Program) : EngineOK (engineOfProgram p) := engineOfProgram_ok p

/-- **P1 for the model.** For every engine that spells, every word `s`, every list of positions
(sorted or not, in range or not), every option combination: if the rebuilding returns, then the
marked nodes of its output are discretionaries, and deleting them gives the main run of the word
(`run_with_options(s, {dlb, rbo})`), node for node. -/
theorem reconstitute_P1 (eng : Engine) (he : EngineOK eng) (font : Nat) (s : List Nat) (rbo : Option Nat)
    (dlb : Bool) (pos : List Nat) (out : List (Item × Bool))
    (h : rebuildWord eng font s rbo dlb pos = some out) :
    P1 (out.map (·.2)) (out.map (·.1)) (((eng.run dlb rbo s).map (·.1)).map (toItem font)) = true := by
  have := rebuildWord_base he font s rbo dlb pos out h
  simp only [P1, Bool.and_eq_true, decide_eq_true_eq]
  exact ⟨this.2.1, this.1⟩

/-- **P2 for the model.** Under the same hypotheses: at every inserted discretionary the pre-break
letters end with the hyphen, and without it, followed by the post-break letters, they are the
letters of the `replace_count` nodes the discretionary covers, which are original nodes inside the
word's output. This is the invariant of the three lock-stepped runs: `start_of_separation_point ≤
hyphen ≤ chars_pushed`, the post-break run has consumed `chars_pushed − hyphen` characters when
the synchronisation loop exits, and every run spells its input. -/
theorem reconstitute_P2 (eng : Engine) (he : EngineOK eng) (font : Nat) (s : List Nat) (rbo : Option Nat)
    (dlb : Bool) (pos : List Nat) (out : List (Item × Bool))
    (h : rebuildWord eng font s rbo dlb pos = some out) :
    P2 (out.map (·.2)) (out.map (·.1)) = true :=
  (rebuildWord_base he font s rbo dlb pos out h).2.2

/-- **Conservation for the model**, for every subset of breaks: whatever discretionaries of the
rebuilt word the line breaker takes, the reader sees the letters of the word. -/
theorem reconstitute_conserves (eng : Engine) (he : EngineOK eng) (font : Nat) (s : List Nat) (rbo : Option Nat)
    (dlb : Bool) (pos : List Nat) (out : List (Item × Bool)) (taken : List Bool)
    (h : rebuildWord eng font s rbo dlb pos = some out) (hl : taken.length = out.length) :
    render (out.map (·.2)) taken (out.map (·.1)) 0 = s := by
  have := disc_invariants_conserve _ taken _ _ (reconstitute_P1 eng he font s rbo dlb pos out h)
    (reconstitute_P2 eng he font s rbo dlb pos out h) (by simpa using hl)
  rw [this, lettersL_toItem, he.spell]

/-- **Positions of the model, exactly (this is C14-h).** Let `T` be the triples (break position,
first letter covered, end of the covered span) read off the discretionaries of the rebuilt word.
For every engine that spells, strictly ascending positions `1 ≤ p ≤ |s|` (what `IndexIter` yields
from Liang's ascending list, `wordPositions_sorted_range`): the break positions of the inserted
discretionaries are, in order, exactly the allowed positions that are **not strictly inside the
tail of an earlier discretionary's span** — `p` is skipped iff some discretionary with break
`q < p` had to synchronise beyond `p` (`p < span end`): overlapping ligatures forced the main and
the post-break run past `p` before both sat at a separation point with equal character counts.
A position equal to the span end is not skipped (TeX §914's inner loop). In particular no
discretionary sits at a position that is not allowed, and when no synchronisation runs past an
allowed position every allowed position has its discretionary. -/
theorem positions_exact (eng : Engine) (he : EngineOK eng) (font : Nat) (s : List Nat) (rbo : Option Nat)
    (dlb : Bool) (pos : List Nat) (out : List (Item × Bool))
    (hsorted : pos.Pairwise (· < ·)) (hrange : ∀ p ∈ pos, 1 ≤ p ∧ p ≤ s.length)
    (h : rebuildWord eng font s rbo dlb pos = some out) :
    (discPositions (out.map (·.2)) (out.map (·.1)) 0).map (·.1)
      = pos.filter (fun p => !coveredBy (discPositions (out.map (·.2)) (out.map (·.1)) 0) p) :=
  rebuildWord_positions he font s rbo dlb pos out hsorted hrange h

/-- The hypotheses of `positions_exact` hold for what the code feeds the loop: `IndexIter` applied
to a strictly ascending raw list (Liang positions are produced in ascending order). -/
theorem wordPositions_sorted_range (lhm rhm : Int) (len : Nat) (raw : List Nat)
    (hraw : raw.Pairwise (· < ·)) :
    (wordPositions lhm rhm len raw).Pairwise (· < ·) ∧
      ∀ p ∈ wordPositions lhm rhm len raw, 1 ≤ p ∧ p ≤ len := by
  rw [index_iter_spec]
  refine ⟨List.Pairwise.sublist List.filter_sublist hraw, ?_⟩
  intro p hp
  simp only [specPositions, List.mem_filter, Bool.and_eq_true, decide_eq_true_eq] at hp
  omega

/-- C05's engine ends every run at a separation point (nothing pending when the iterator is
exhausted), for every program. -/
theorem c05_engine_sep (p : C05.Program) : EngineSep (engineOfProgram p) := engineOfProgram_sep p

/-- **No panic, no hang.** For every engine that spells and ends its runs at a separation point,
every word and strictly ascending positions `1 ≤ p < |s|`: the rebuilding returns — none of the
slices `s[ssp..hyph]` is out of range, `out.len() - elements_since_separation_point` never
underflows, and the synchronisation loop (which would spin for ever if it asked an exhausted
iterator to advance) terminates. -/
theorem reconstitute_total (eng : Engine) (he : EngineOK eng) (hl : EngineSep eng) (font : Nat) (s : List Nat)
    (rbo : Option Nat) (dlb : Bool) (pos : List Nat)
    (hsorted : pos.Pairwise (· < ·)) (hrange : ∀ p ∈ pos, 1 ≤ p ∧ p < s.length) :
    ∃ out, rebuildWord eng font s rbo dlb pos = some out :=
  rebuildWord_total he hl font s rbo dlb pos hsorted hrange

/-- The whole pass of the model returns, for every list, every hyphen minimums and every
ascending source of Liang positions. -/
theorem hyphenateM_total (eng : Engine) (he : EngineOK eng) (hl : EngineSep eng) (lhm rhm : Int)
    (liang : List Nat → List Nat) (hliang : ∀ s, (liang s).Pairwise (· < ·)) (l : List Item) :
    ∃ out, hyphenateM eng lhm rhm liang l = some out := by
  suffices hs : ∀ fuel l, ∃ out, hyphList eng lhm rhm liang fuel l = some out by
    obtain ⟨o, ho⟩ := hs (l.length + 1) l
    exact ⟨o.map (·.1), by simp [hyphenateM, ho]⟩
  intro fuel
  induction fuel with
  | zero => intro l; exact ⟨unmarkedL l, rfl⟩
  | succ fuel ih =>
    intro l
    cases l with
    | nil => exact ⟨[], rfl⟩
    | cons x xs =>
      simp only [hyphList, hyphListG]
      have cont : ∀ (rest : List Item) (f : List (Item × Bool) → List (Item × Bool)),
          ∃ out, (hyphListG (rebuildWord eng) lhm rhm liang fuel rest).map f = some out := by
        intro rest f
        obtain ⟨o, ho⟩ := ih rest
        exact ⟨f o, by simp only [hyphList] at ho; rw [ho]; rfl⟩
      split
      · exact cont _ _
      · split
        · exact cont _ _
        · split
          · exact cont _ _
          · split
            · exact cont _ _
            · split
              · exact cont _ _
              · rename_i f _ _ _ _
                have hw := wordPositions_sorted_range lhm rhm (gather f (xs.drop (seek false xs 0).1) [] 0).1.length _ (hliang (gather f (xs.drop (seek false xs 0).1) [] 0).1)
                split
                · rename_i hnone
                  exfalso
                  have hrange : ∀ p ∈ wordPositions lhm rhm (gather f (xs.drop (seek false xs 0).1) [] 0).1.length
                      (liang (gather f (xs.drop (seek false xs 0).1) [] 0).1),
                      1 ≤ p ∧ p < (gather f (xs.drop (seek false xs 0).1) [] 0).1.length := by
                    intro p hp
                    have h1 := (hw.2 p hp).1
                    rw [index_iter_spec] at hp
                    simp only [specPositions, List.mem_filter, Bool.and_eq_true, decide_eq_true_eq] at hp
                    omega
                  obtain ⟨o, ho⟩ := reconstitute_total eng he hl f _ _ _ _ hw.1 hrange
                  rw [ho] at hnone
                  cases hnone
                · exact cont _ _

/-! ### The whole pass of the model -/

/-- **P1 and P2 for the whole pass of the model.** `hyphList` returns the list after the pass with
its inserted discretionaries marked. For every engine that spells, every list, minimums and
Liang source: the marked nodes are discretionaries, deleting them gives `unbrokenM` — the input
with every rebuilt word replaced by its main lig/kern run (equal to the input itself unless a
boundary artefact C14-f/g/i occurs; the driver evaluates `unbrokenM = input` per run) — and P2
holds at every inserted discretionary. -/
theorem hyphenateM_invariants (eng : Engine) (he : EngineOK eng) (lhm rhm : Int) (liang : List Nat → List Nat)
    (l : List Item) (out : List (Item × Bool)) (h : hyphList eng lhm rhm liang (l.length + 1) l = some out) :
    ∃ u, unbrokenM eng lhm rhm liang l = some u ∧
      P1 (out.map (·.2)) (out.map (·.1)) u = true ∧ P2 (out.map (·.2)) (out.map (·.1)) = true := by
  obtain ⟨u, hu, g⟩ := hyphListG_lift (rebuildWord eng) (mainRunWord eng) lhm rhm liang
    (by
      intro f s rbo dlb pos w hw
      have := rebuildWord_base he f s rbo dlb pos w hw
      exact ⟨_, rfl, ⟨this.1, this.2.1, this.2.2⟩⟩) _ l out h
  refine ⟨u, ?_, ?_, g.p2⟩
  · simp only [unbrokenM, hu, Option.map_some]
    rw [show (unmarkedL u).map (·.1) = u from it_unmarkedL u]
  · simp only [P1, Bool.and_eq_true, decide_eq_true_eq]
    exact ⟨g.amd, g.erased⟩

/-- **Conservation for the whole pass of the model, relative to the INPUT.** Whatever subset of the
inserted discretionaries is taken, the text rendered from the model's output carries exactly the
letters of the input list — boundary artefacts included (they add or change ligature/kern nodes
but no letters). Together with the per-run check "real output = model output" (I = M, exact)
this is conservation for the real code on every checked run, now as a consequence of the model's
theorem and not only of the evaluation of P1/P2 on that run. -/
theorem hyphenateM_conserves (eng : Engine) (he : EngineOK eng) (lhm rhm : Int) (liang : List Nat → List Nat)
    (l : List Item) (out : List (Item × Bool)) (taken : List Bool)
    (h : hyphList eng lhm rhm liang (l.length + 1) l = some out) (hl : taken.length = out.length) :
    render (out.map (·.2)) taken (out.map (·.1)) 0 = lettersL l := by
  obtain ⟨u, hu, g⟩ := hyphListG_lift (rebuildWord eng) (mainRunWord eng) lhm rhm liang
    (by
      intro f s rbo dlb pos w hw
      have := rebuildWord_base he f s rbo dlb pos w hw
      exact ⟨_, rfl, ⟨this.1, this.2.1, this.2.2⟩⟩) _ l out h
  have hp1 : P1 (out.map (·.2)) (out.map (·.1)) u = true := by
    simp only [P1, Bool.and_eq_true, decide_eq_true_eq]; exact ⟨g.amd, g.erased⟩
  rw [disc_invariants_conserve _ taken _ _ hp1 g.p2 (by simpa using hl)]
  exact unbroken_letters eng he lhm rhm liang _ l u hu

/-- The hypothesis "Liang positions ascending" of `positions_exact`/`hyphenateM_total` holds for
C13's model of `hyphenate::Hyphenator::calculate_indices` (every pattern set, exception list,
lower-case map and word): the indices are the odd positions of the score vector, enumerated in
order. (For the real crate it is checked per run.) -/
theorem liang_ascending (h : C13.Hyph) (lc : Char → Option Char) (w : List Char) (l : List Nat)
    (hl : C13.calculateIndices h lc w = some l) : l.Pairwise (· < ·) := by
  simp only [C13.calculateIndices, Option.map_eq_some_iff] at hl
  obtain ⟨s, -, rfl⟩ := hl
  exact (oddIdx_sorted s 0).1

/-- Non-vacuity, the repository's `synchronization_2`: rules `ab→x bc→y cd→z de→w ef→v`, word
`abcdefgh`, allowed positions 1, 4, 6: the discretionary at 1 covers letters 0..6, position 4 is
skipped, position 6 (= the span end) gets its discretionary. -/
private def exSync : C05.Program :=
  { instrs := [⟨none, 98, .lig 120 .neither⟩, ⟨none, 99, .lig 121 .neither⟩, ⟨none, 100, .lig 122 .neither⟩,
               ⟨none, 101, .lig 119 .neither⟩, ⟨none, 102, .lig 118 .neither⟩],
    lbEntry := none, rb := none, entries := [(97, 0), (98, 1), (99, 2), (100, 3), (101, 4)], kerns := [] }

example : (rebuildWord (engineOfProgram exSync) 0 [97, 98, 99, 100, 101, 102, 103, 104] none true [1, 4, 6]).map
    (fun o => discPositions (o.map (·.2)) (o.map (·.1)) 0) = some [(1, 0, 6), (6, 6, 6)] := by decide

/-- Non-vacuity: `dif-fi-cult` with the rules `f f → ff`, `ff i → ffi`, `f i → fi` (as in cmr10). -/
private def exProg : C05.Program :=
  { instrs := [⟨some 0, 102, .lig 11 .neither⟩, ⟨none, 105, .lig 12 .neither⟩, ⟨none, 105, .lig 14 .neither⟩],
    lbEntry := none, rb := none, entries := [(102, 0), (11, 2)], kerns := [] }

example : (rebuildWord (engineOfProgram exProg) 0 [100, 105, 102, 102, 105, 99, 117, 108, 116] none true [3, 5]).map
    (fun o => o.map (·.1)) = some exOut := by decide

/-! ## Deepening round: the statement for the model of the algorithm -/

/-- Why mutant 25 of the sweep (exit test of the synchronisation loop written without
`post_break_iter.is_separation_point()`) is equivalent: for an engine whose runs end at a
separation point, the loop started by `hyphLoop` (post-break iterator fresh, hence at a separation
point) computes the same result with and without that conjunct, for every fuel. -/
theorem sync_post_sep_redundant (eng : Engine) (hl : EngineSep eng) (rbo : Option Nat) (text : List Nat)
    (fuel : Nat) (st : Sync) (hpost : st.post = ⟨eng.run false rbo text, true⟩) :
    syncNoPostSep fuel st = sync fuel st :=
  syncNoPostSep_eq fuel st (by rw [hpost]; exact hl.lastSep false rbo text) (by rw [hpost])

/-- `expectedM` (the allowed positions of all rebuilt words as absolute letter offsets, defined by
the traversal of the pass) is the list `chk` computes from `findWords` (= `specWords`,
`discovery_complete`) and `wordPositions` (= `specPositions`, `index_iter_spec`). -/
theorem expectedM_spec (lhm rhm : Int) (liang : List Nat → List Nat) (l : List Item) :
    expectedM lhm rhm liang l
      = expectedPositions l (specWords l)
          ((specWords l).map (fun w => specPositions lhm rhm w.letters.length (liang w.letters))) := by
  rw [expectedM_eq_findWords, discovery_complete]
  congr 2
  funext w
  exact index_iter_spec _ _ _ _

/-- **Positions of the whole pass, exactly** (`positions_exact` lifted to the list): the break
positions of ALL inserted discretionaries of the model's output, as absolute letter offsets, are
in order exactly the allowed positions of all rebuilt words (`expectedM`) that are not strictly
inside the tail of an earlier discretionary's span. Every engine that spells, every list, every
minimums, every ascending Liang source. -/
theorem positions_exact_list (eng : Engine) (he : EngineOK eng) (lhm rhm : Int) (liang : List Nat → List Nat)
    (hliang : ∀ s, (liang s).Pairwise (· < ·)) (l : List Item) (out : List (Item × Bool))
    (h : hyphList eng lhm rhm liang (l.length + 1) l = some out) :
    (discPositions (out.map (·.2)) (out.map (·.1)) 0).map (·.1)
      = (expectedM lhm rhm liang l).filter
          (fun p => !coveredBy (discPositions (out.map (·.2)) (out.map (·.1)) 0) p) :=
  (hyphList_posOK he lhm rhm liang hliang _ l out 0 h).eq

/-- P1 against the INPUT, under the decidable hypothesis that no rebuilt word deviates: if the
main lig/kern run of every rebuilt word reproduces its nodes (`unbrokenM = input`; the driver
evaluates this per run, `ub=1`, and names the shape of each deviation otherwise), deleting the
inserted discretionaries gives the input back node for node. -/
theorem hyphenateM_P1_input (eng : Engine) (he : EngineOK eng) (lhm rhm : Int) (liang : List Nat → List Nat)
    (l : List Item) (out : List (Item × Bool)) (h : hyphList eng lhm rhm liang (l.length + 1) l = some out)
    (hub : unbrokenM eng lhm rhm liang l = some l) :
    P1 (out.map (·.2)) (out.map (·.1)) l = true := by
  obtain ⟨u, hu, hp1, -⟩ := hyphenateM_invariants eng he lhm rhm liang l out h
  rw [hub] at hu
  cases hu
  exact hp1

/-- **The property for the model of the algorithm** (the proved counterpart of
`C14_full_statement`, with `impl` := `hyphList` over C05's engine): for every lig/kern program
(C05's quantifier: anything `compile` accepts, loops and redirects included), every hyphen
minimums, every ascending Liang source and every horizontal list, the pass returns a marked
list `out` such that
* P2 holds at every inserted discretionary;
* for EVERY subset of breaks taken the rendered letters are the input's letters;
* the discretionaries sit at exactly the allowed positions not swallowed by an earlier
  discretionary's synchronisation;
* if no rebuilt word's main run deviates from its nodes (`unbrokenM = input`, decidable), P1
  holds against the input. The hypothesis cannot be dropped: `example`s below refute P1 at the
  recorded shapes f, g, i, j. -/
theorem C14_model_statement (p : C05.Program) (lhm rhm : Int) (liang : List Nat → List Nat)
    (hliang : ∀ s, (liang s).Pairwise (· < ·)) (l : List Item) :
    ∃ out : List (Item × Bool),
      hyphList (engineOfProgram p) lhm rhm liang (l.length + 1) l = some out ∧
      P2 (out.map (·.2)) (out.map (·.1)) = true ∧
      (∀ taken : List Bool, taken.length = out.length →
        render (out.map (·.2)) taken (out.map (·.1)) 0 = lettersL l) ∧
      (discPositions (out.map (·.2)) (out.map (·.1)) 0).map (·.1)
        = (expectedM lhm rhm liang l).filter
            (fun q => !coveredBy (discPositions (out.map (·.2)) (out.map (·.1)) 0) q) ∧
      (unbrokenM (engineOfProgram p) lhm rhm liang l = some l →
        P1 (out.map (·.2)) (out.map (·.1)) l = true) := by
  have he := c05_engine_ok p
  obtain ⟨o, ho⟩ := hyphenateM_total (engineOfProgram p) he (c05_engine_sep p) lhm rhm liang hliang l
  simp only [hyphenateM, Option.map_eq_some_iff] at ho
  obtain ⟨out, hout, -⟩ := ho
  refine ⟨out, hout, ?_, ?_, ?_, ?_⟩
  · exact (hyphenateM_invariants _ he lhm rhm liang l out hout).choose_spec.2.2
  · intro taken hl
    exact hyphenateM_conserves _ he lhm rhm liang l out taken hout hl
  · exact positions_exact_list _ he lhm rhm liang hliang l out hout
  · exact hyphenateM_P1_input _ he lhm rhm liang l out hout

/-! ### The hypothesis `unbrokenM = input` cannot be dropped: the four recorded shapes -/

private def glue0 : Item := .other .glue []

/-- f (known finding C14-f, TeX-compatible and pinned by the repository's tests): `y. → y ,` —
`ay.` with the break `a-y`: the word is rebuilt with `.` standing in for the right boundary and a
second `,` ligature appears. -/
private def pF : C05.Program :=
  { instrs := [⟨none, 46, .lig 44 .leftNowhere⟩], lbEntry := none, rb := none, entries := [(121, 0)], kerns := [] }
private def inF : List Item := [glue0, .char 97 0, .char 121 0, .lig 44 0 [46] false false]
example : unbrokenM (engineOfProgram pF) 1 1 (fun _ => [1]) inF ≠ some inF := by decide
example : ∃ out, hyphList (engineOfProgram pF) 1 1 (fun _ => [1]) 5 inF = some out ∧
    P1 (out.map (·.2)) (out.map (·.1)) inF = false := ⟨_, rfl, by decide⟩

/-- g (stated boundary, TeX §903 `found2`): `|c → | - c` then `|- → kern`: the font kern stepped over
by the search is emitted a second time. -/
private def pG : C05.Program :=
  { instrs := [⟨some 0, 45, .kern 7⟩, ⟨none, 99, .lig 45 .bothNowhere⟩], lbEntry := some 0, rb := none,
    entries := [], kerns := [] }
private def inG : List Item :=
  [glue0, .kern 0 7, .lig 45 0 [] true false, .char 99 0, .char 97 0, .char 98 0]
example : unbrokenM (engineOfProgram pG) 1 1 (fun _ => [2]) inG ≠ some inG := by decide

/-- i (known finding C14-i, NOT TeX-compatible): `.a → . b`: the left context `.` of the word is
lost and the first letter comes back plain. -/
private def pI : C05.Program :=
  { instrs := [⟨none, 97, .lig 98 .leftInserted⟩], lbEntry := none, rb := none, entries := [(46, 0)], kerns := [] }
private def inI : List Item := [glue0, .char 46 0, .lig 98 0 [97] false false, .char 97 0]
example : unbrokenM (engineOfProgram pI) 1 1 (fun _ => [1]) inI ≠ some inI := by decide

/-- j (stated boundary, TeX §896/§903 `init_lft = false`): three chained left-boundary rules. -/
private def pJ : C05.Program :=
  { instrs := [⟨some 0, 97, .lig 120 .leftNowhere⟩, ⟨none, 120, .lig 45 .rightInserted⟩,
               ⟨none, 120, .lig 97 .bothInserted⟩],
    lbEntry := some 0, rb := none, entries := [(45, 2)], kerns := [] }
private def inJ : List Item :=
  [glue0, .lig 45 0 [] true false, .lig 97 0 [] false false, .lig 120 0 [97] false false, .char 97 0, .char 98 0]
example : unbrokenM (engineOfProgram pJ) 1 1 (fun _ => [1]) inJ ≠ some inJ := by decide

/-- Non-vacuity of the hypothesis: `dif-fi-cult`. -/
example : unbrokenM (engineOfProgram exProg) 2 3 (fun _ => [3, 5]) (glue0 :: exInp) = some (glue0 :: exInp) := by
  decide

end C14
