import TexcraftModel.Lemmas.C14

/-!
# C14 — property theorems

* `index_iter_spec`            `IndexIter` + the hyphen-minimum clamping = "at least max(1,lhm) letters
                               before the break and at least max(1,rhm) after it"
* `disc_invariants_conserve`   P1 ∧ P2 (decidable, evaluated on every real output) ⇒ for every choice of
                               breaks the reader sees the letters of the input
* `p1_unbroken`                P1 ⇒ with no break taken, node for node the input

The ligature reconstitution itself (TeX §903–§918) is validated per run (P1, P2, positions),
not proved: see `notes/C14.md`.
-/
namespace C14

/-! ## Hyphen minimums -/

/-- `IndexIter` (as coded: a recursive `next` that skips) with `min = max(1,lhm)` and
`max = len.saturating_sub(max(1,rhm))` yields exactly the raw Liang positions that leave at
least `max 1 lhm` letters before and `max 1 rhm` letters after the break, in order. For every
`lhm`, `rhm` (negative and zero included), every length and every raw list. -/
theorem index_iter_spec (lhm rhm : Int) (len : Nat) (raw : List Nat) :
    wordPositions lhm rhm len raw = specPositions lhm rhm len raw := by
  unfold wordPositions specPositions
  rw [drain_eq_filter]
  apply List.filter_congr
  intro p _
  simp only [inRange, effMin]
  by_cases h1 : lhm ≤ 0 <;> by_cases h2 : rhm ≤ 0 <;> simp only [h1, h2, if_true, if_false] <;>
    (rw [Bool.eq_iff_iff]; simp only [decide_eq_true_eq, Bool.and_eq_true]; omega)

example : wordPositions 2 3 9 [1, 3, 5, 7, 8] = [3, 5] := by decide
example : wordPositions 0 (-4) 4 [0, 1, 2, 3, 4] = [1, 2, 3] := by decide
example : wordPositions 2 3 4 [1, 2, 3] = [] := by decide

/-! ## Conservation -/

/-- **Conservation meta-theorem.** Let `marks` select nodes of the output `out`. If
P1 (the marked nodes are discretionaries and deleting them gives the input `inp` back, node for
node) and P2 (at each marked discretionary the pre-break letters minus the hyphen followed by the
post-break letters are the letters of the `replace_count` original nodes it covers) hold, then
for EVERY choice `taken` of breaks the text rendered from the output carries exactly the letters
of the input, in order. P1 and P2 are the decidable checks the driver runs on every real output. -/
theorem disc_invariants_conserve (marks taken : List Bool) (out inp : List Item)
    (h1 : P1 marks out inp = true) (h2 : P2 marks out = true) (hl : taken.length = out.length) :
    render marks taken out 0 = lettersL inp := by
  simp only [P1, Bool.and_eq_true, decide_eq_true_eq] at h1
  have := render_invariant out marks taken 0 h2 h1.1 hl (by omega) (by simp)
  simpa [lettersL_nil, h1.2] using this

/-- With no break taken nothing at all changed: P1 is literally "delete the inserted
discretionaries and get the input, node for node". -/
theorem p1_unbroken (marks : List Bool) (out inp : List Item) (h1 : P1 marks out inp = true) :
    erase marks out = inp := by
  simp only [P1, Bool.and_eq_true, decide_eq_true_eq] at h1
  exact h1.2

/-- Non-vacuity: "dif-fi-cult" in cmr10 as the real pass leaves it (`di`, disc(`f-`|`fi`|1),
lig `ffi`, disc(`-`||0), `cult`); both breaks, one, or none taken. -/
private def exOut : List Item :=
  [.char 100 0, .char 105 0,
   .disc [.char 102 0, .char 45 0] [.lig 12 0 [102, 105] false false] 1,
   .lig 14 0 [102, 102, 105] false false,
   .disc [.char 45 0] [] 0,
   .char 99 0, .char 117 0, .char 108 0, .char 116 0]
private def exInp : List Item :=
  [.char 100 0, .char 105 0, .lig 14 0 [102, 102, 105] false false,
   .char 99 0, .char 117 0, .char 108 0, .char 116 0]
private def exMarks : List Bool := [false, false, true, false, true, false, false, false, false]

example : align exInp exOut = some exMarks := by decide
example : P1 exMarks exOut exInp = true ∧ P2 exMarks exOut = true := by decide
example : render exMarks [false, false, true, false, true, false, false, false, false] exOut 0
    = [100, 105, 102, 102, 105, 99, 117, 108, 116] := by decide
/-- P2 is not vacuous: a post-break that loses the `i` is rejected. -/
example : P2 [true, false] [.disc [.char 102 0, .char 45 0] [.char 102 0] 1, .lig 14 0 [102, 102, 105] false false] = false := by
  decide

end C14
