import TexcraftModel.Lemmas.C17Round
import TexcraftModel.Lemmas.C17Scaled
import TexcraftModel.Lemmas.C17Cover
import TexcraftModel.Lemmas.C17Compress
import TexcraftModel.Lemmas.C17Graph
import TexcraftModel.Lemmas.C17NLAlgo
import TexcraftModel.Lemmas.C17Reader
import TexcraftModel.Lemmas.C17Remap
import TexcraftModel.Lemmas.C17Unobs
import TexcraftModel.Lemmas.C17LateBreak
/-!
# C17 — font-metric arithmetic: theorems

Statement of the property (properties.jsonl): every fix_word prints in a property list as a
decimal that the PL reader converts back to the identical 32-bit value; scaling a fix_word by
a design size equals TeX's store_scaled bit for bit; the lossy table compression returns at
most the allowed number of classes with the smallest possible tolerance, every input within
half that tolerance of its representative; next-larger chains are finite, follow the links and
are cut only at the largest character of a cycle.
-/
namespace C17

/-! ## 1. print / parse -/

/-- **fix_print_parse.** Every 32-bit fix_word except `0x80000000` is printed by `Display`
(TFtoPL §40–43) as a text `R <decimal>` that the PL reader (PLtoTF §62–66) converts back to
the identical value, without a warning. Fully symbolic: no table. -/
theorem fix_print_parse (v : Int) (hlo : -2147483648 < v) (hhi : v ≤ 2147483647) :
    parseFix (plText v) = ⟨v, .none⟩ := by
  obtain ⟨c, t, hd, hc, h3, h4⟩ := read_unsigned (v.natAbs / 1048576) (by omega)
    ((v.natAbs % 1048576 : Nat) : Int) (by omega) (by omega)
  rw [hd] at h3
  simp only [List.cons_append] at h3
  have hR : skipSpaces ('R' :: ' ' :: printFix v) = 'R' :: ' ' :: printFix v := by
    simp [skipSpaces]
  have hsp : skipSpaces (' ' :: printFix v) = skipSpaces (printFix v) := by simp [skipSpaces]
  have h5 : ¬ (((v.natAbs / 1048576 : Nat) : Int) ≥ 2048 ∨
      (((v.natAbs % 1048576 : Nat) : Int) ≥ 1048576 ∧ ((v.natAbs / 1048576 : Nat) : Int) = 2047)) := by
    omega
  have h6 : ((v.natAbs / 1048576 : Nat) : Int) * 1048576 + ((v.natAbs % 1048576 : Nat) : Int)
      = (v.natAbs : Int) := by omega
  have hp := printFix_eq v
  simp only [parseFix, plText, hR]
  rw [hsp]
  by_cases hv : v < 0
  · simp only [hv, if_true, hd, List.cons_append, List.nil_append] at hp
    have h1 : skipSpaces (printFix v) = printFix v := by
      rw [hp]; simp [skipSpaces]
    have h2 : ∀ rest, readSigns ('-' :: c :: rest) false = (true, c :: rest) := by
      intro rest
      rw [readSigns]
      simpa using readSigns_digit c rest true hc
    rw [h1, hp]
    simp only [h2, h3, h4, h5, h6, if_false]
    have : ((v.natAbs : Nat) : Int) = -v := by omega
    simp [this]
  · simp only [hv, if_false, hd, List.cons_append, List.nil_append] at hp
    rw [hp, skipSpaces_digit c _ hc]
    simp only [readSigns_digit c _ false hc, h3, h4, h5, h6, if_false]
    have : ((v.natAbs : Nat) : Int) = v := by omega
    simp [this]

/-- **print_fuel_suffices.** The digit loop of `Display` (an unbounded `loop` in Rust, fuel in
the model) stops by itself within seven iterations for every fraction: any fuel ≥ 7 (the
model uses 12) prints the same digits, at most seven of them. -/
theorem print_fuel_suffices (n : Nat) (f : Int) (h0 : 0 ≤ f) (h1 : f < 1048576) :
    fracDigits (n + 7) (10 * f + 5) 10 = fracDigits 7 (10 * f + 5) 10 ∧
    (fracDigits 7 (10 * f + 5) 10).length ≤ 7 :=
  ⟨frac_fuel_suffices n f h0 h1, frac_at_most_7_digits 0 f h0 h1⟩

/-- Non-vacuity: concrete instances (a value needing seven digits, the largest, a negative). -/
example : parseFix (plText 333333) = ⟨333333, .none⟩ := fix_print_parse _ (by decide) (by decide)
example : printFix 2147483647 = "2047.999999".toList := by decide
example : printFix (-1) = "-0.000001".toList := by decide

/-- **Finding C17-a** (known, Knuth-compatible): the excluded pattern `0x80000000` prints as
`-2048.0`, which the reader rejects (`DecimalNumberIsTooBig`, value replaced by 0). -/
theorem fix_print_parse_fails_at_min :
    printFix (-2147483648) = "-2048.0".toList ∧
    parseFix (plText (-2147483648)) = ⟨0, .tooBig⟩ := by
  decide

/-! ## 2. `to_scaled` = TeX's `store_scaled` -/

/-- **to_scaled_eq_store_scaled.** For every non-negative `i32` design size and every fix_word
in TeX's legal range `−16 ≤ v < 16` (first byte 0 or 255), the Rust `to_scaled` — with every
`i32` overflow check and the `assert!` modelled as a panic — does not panic and returns
exactly what TeX §568/§571/§572 computes (which does not `abort`). -/
theorem to_scaled_eq_store_scaled (v ds : Int) (hds0 : 0 ≤ ds) (hds1 : ds ≤ 2147483647)
    (hv0 : -16777216 ≤ v) (hv1 : v < 16777216) :
    toScaled v ds = storeScaled v ds ∧ (storeScaled v ds).isSome = true := by
  simp only [toScaled, storeScaled, Int.tdiv_eq_ediv_of_nonneg hds0]
  rw [halve_eq_tex 32 (ds / 16) 16 (by omega)]
  obtain ⟨z', a, e, h1, h2, h3, h4⟩ := texHalve_cases (ds / 16) (by omega) (by omega)
  rw [e]
  exact scaledWith_eq z' a v h1 h2 h3 h4 hv0 hv1

/-- **to_scaled_guard.** Outside that range (any other `i32`) the `assert!(a == 0 || a == 255)`
(or an earlier overflow check) fires, exactly where TeX's `store_scaled` aborts. -/
theorem to_scaled_guard (v ds : Int) (hi0 : -2147483648 ≤ v) (hi1 : v ≤ 2147483647)
    (hv : v < -16777216 ∨ 16777216 ≤ v) :
    toScaled v ds = none ∧ storeScaled v ds = none := by
  have ha : ¬ ((beBytes v).1 = 0 ∨ (beBytes v).1 = 255) := by
    simp only [beBytes]; omega
  constructor
  · simp only [toScaled, scaledWith]
    generalize beBytes v = q at ha ⊢
    obtain ⟨a, b, c, d⟩ := q
    simp only at ha
    cases chk ((halve 32 (Int.tdiv ds 16) 16).1 * (halve 32 (Int.tdiv ds 16) 16).2) <;> simp [ha]
  · simp only [storeScaled, texWith]
    generalize beBytes v = q at ha ⊢
    obtain ⟨a, b, c, d⟩ := q
    simp only at ha
    have h1 : ¬ a = 0 := fun h => ha (Or.inl h)
    have h2 : ¬ a = 255 := fun h => ha (Or.inr h)
    simp [h1, h2]

/-- Non-vacuity: a 10pt font, the value −1.0 (first byte 255), and the assert outside. -/
example : toScaled (-1048576) 10485760 = some (-655360) := by decide
example : storeScaled 333333 (2147483647) = some 42666618 := by decide
example : toScaled 16777216 10485760 = none := by decide

/-! ## 3. Next-larger chains -/

/-- **next_larger_spec.** For every finite functional graph `g` (association list of
`character ↦ next larger`, any size, any labels) and every character `c`:
* *finite*: `get(c)` has at most `g.length` elements and ends by itself at a character that
  has no link in the cut graph (the fuel of the model is never what stops it; any larger fuel
  gives the same chain);
* *follows the links*: every consecutive pair of `c :: get(c)` is a link of the font;
* *cut only at the largest character of a cycle*: a link `a ↦ d` is removed only if `a`
  returns to itself (`p ≥ 1` steps) and no character on the way is larger than `a`; every
  other link is kept. (That every cycle *is* cut is the finiteness clause.) -/
theorem next_larger_spec (g : List (Nat × Nat)) (c : Nat) :
    ((nlGet g c).length ≤ g.length ∧ cutNxt g ((nlGet g c).getLastD c) = none ∧
      ∀ k, chain g (g.length + 1 + k) c = nlGet g c) ∧
    Linked (nxt g) (c :: nlGet g c) ∧
    (∀ a d, nxt g a = some d → cutNxt g a = none →
      ∃ p, 1 ≤ p ∧ it (nxt g) p a = some a ∧ ∀ m y, m < p → it (nxt g) m a = some y → y ≤ a) ∧
    (∀ a d, cutNxt g a = some d → nxt g a = some d) := by
  have hlen := chain_length_le g (g.length + 1) c
  refine ⟨⟨hlen, chain_stops g (g.length + 1) c (by omega), fun k => chain_fuel g c k⟩,
    linked_mono _ _ (cutNxt_sub g) _ (chain_links g (g.length + 1) c), ?_, cutNxt_sub g⟩
  intro a d hn hc
  apply isCut_meaning
  simp only [cutNxt] at hc
  split at hc
  · assumption
  · rw [hn] at hc; simp at hc

/-- Non-vacuity: the 3-cycle 1→2→3→1 with a tail 0→1 is cut at 3. -/
example : nlGet [(0, 1), (1, 2), (2, 3), (3, 1)] 0 = [1, 2, 3] ∧
    cutNxt [(0, 1), (1, 2), (2, 3), (3, 1)] 3 = none := by decide

/-- **next_larger_algo.** The clause-by-clause transcription of `NextLargerProgram::new` and
`get` (`Model/C17NL.lean`: in-degree counts, the work-list loop with leaf stripping and the cut
at the largest remaining non-leaf, the `next_larger` vector with offsets, `entrypoints`, the
iterator) equals the cut-graph specification, for every functional graph `g` on characters
`< 256` and **every** iteration order `order` of the `HashMap` `node_to_num_smaller`:
no `expect`/`checked_sub`/`try_into` fires, the fuel `2·|nodes| + 2` is never exhausted, the
`InfiniteLoop` warnings are the cuts in ascending order, and `get(c)` is the chain of the cut
graph for every `c` — hence (by `next_larger_spec`) finite, following the font's links, cut
only at the largest character of a cycle. -/
theorem next_larger_algo (g : List (Nat × Nat)) (hF : Functional g)
    (hLab : ∀ e ∈ g, e.1 < 256 ∧ e.2 < 256) (order : List Nat) (hnd : order.Nodup)
    (hmem : ∀ x, x ∈ order ↔ IsNode g x) :
    ∃ prog, nlCompile g order = .ok (prog, nlLoops g 255) ∧ ∀ c, progGet prog c = nlGet g c :=
  nlCompile_correct g hF hLab order hnd hmem

/-- **next_larger_first_loop.** The first loop of `new` (existence filter, optional drop) keeps
a sub-list of the edges, so the kept map of a font (one NEXTLARGER per character) is functional:
the hypotheses of `next_larger_algo` hold for what `new` is given by `.pl`/`.tfm` files. -/
theorem next_larger_first_loop (exist : Nat → Bool) (dropNE : Bool) (edges : List (Nat × Nat))
    (hn : (edges.map Prod.fst).Nodup) (hLab : ∀ e ∈ edges, e.1 < 256 ∧ e.2 < 256) :
    Functional (nlEdges exist dropNE edges [] []).1 ∧
    ∀ e ∈ (nlEdges exist dropNE edges [] []).1, e.1 < 256 ∧ e.2 < 256 := by
  refine ⟨nlEdges_functional exist dropNE edges [] [] hn (by simp [Functional]) (by simp), ?_⟩
  intro e he
  rcases nlEdges_sub exist dropNE edges [] [] e he with h | h
  · exact hLab e h
  · simp at h

/-- Non-vacuity: the 3-cycle with a tail, the `HashMap` iterated in the order 3, 1, 0, 2. -/
example : (match nlCompile [(0, 1), (1, 2), (2, 3), (3, 1)] [3, 1, 0, 2] with
    | .ok (p, w) => (progGet p 0, progGet p 3, w)
    | _ => ([], [], [])) = ([1, 2, 3], [], [(3, 1)]) := by decide

/-- Outside the hypothesis (two links for one character) the transcription panics like the
Rust code ("General graph fact…"). -/
example : nlCompile [(1, 3), (1, 2)] [1, 2, 3] = .panic := by decide

/-! ## 4. `compress` -/

/-- **greedy_optimal.** Whatever `C` covers the values with intervals of length `δ` has at
least as many intervals as the greedy pass of `compress` opens. -/
theorem greedy_optimal (δ : Int) (vals C : List Int) (h : Covers δ C vals) :
    greedyCount δ vals ≤ C.length :=
  greedyCount_le_cover δ vals C h

/-- **greedy_monotone** — the fact the binary search of `compress` rests on: for sorted values
a larger tolerance never needs more classes (so "δ admits ≤ max classes" is monotone in δ). -/
theorem greedy_monotone (δ δ' : Int) (hδ : 0 ≤ δ) (h : δ ≤ δ') (vals : List Int)
    (hs : vals.Pairwise (· ≤ ·)) : greedyCount δ' vals ≤ greedyCount δ vals :=
  greedyCount_mono δ δ' hδ h vals hs

/-- **compress_minimal** (abstract form): if the greedy pass needs more than `maxSize` classes
at `δ`, then no tolerance `δ' ≤ δ` admits *any* cover with `maxSize` intervals. -/
theorem compress_minimal (δ δ' : Int) (h : δ' ≤ δ) (vals C : List Int) (maxSize : Nat)
    (hg : greedyCount δ vals > maxSize) (hC : C.length ≤ maxSize) : ¬ Covers δ' C vals := by
  intro hc
  have := greedyCount_le_cover δ vals C (covers_mono δ' δ h C vals hc)
  omega

/-- **compress_check_sound.** The executable checker that the correspondence runs on the
*real* output of the Rust `compress` is sound for the specification `CompressSpec`
(≤ `maxSize` classes; every value within half the tolerance of its representative; the
tolerance minimal over all covers). -/
theorem compress_check_sound (values : List Int) (maxSize : Nat) (table : List Int)
    (m : List (Int × Nat)) (h : checkCompress values maxSize table m = (true, true, true)) :
    CompressSpec values maxSize table m :=
  checkCompress_sound values maxSize table m h

/-- **compress_spec.** For every list of 32-bit values (any length, duplicates allowed, the
whole `i32` range: since /repo 3d2d8d9 the search and the midpoints are computed in `i64`) and
every class limit `maxSize ≥ 1`, the model of `compress` — early exit, binary search with the
`delta_lower`/`delta_upper` jumps and the early `break`, 64 iterations of fuel, final loop with
the `try_into().expect(…)` of the midpoint — does not panic and its result satisfies
`CompressSpec`: at most `maxSize` classes, every value within half the tolerance of its
representative (`2|v − rep| ≤ δ + δ mod 2`, see `no_integer_representative_better`), and the tolerance is the smallest for which *any* `maxSize` intervals cover
the values. -/
theorem compress_spec (values : List Int) (maxSize : Nat) (hmax : 1 ≤ maxSize)
    (hr : ∀ v ∈ values, -2147483648 ≤ v ∧ v ≤ 2147483647) :
    ∃ table m, compress values maxSize = .ok (table, m) ∧ CompressSpec values maxSize table m :=
  compress_meets_spec values maxSize hmax hr

/-- **compress_tolerance_attained.** The same, with the tolerance `δ` made explicit and shown to
be *attained*: unless `δ = 0`, two input values exactly `δ` apart are in one class. Together with
`no_integer_representative_better` this is the exact form of "within half the tolerance": the
bound `2|v − rep| ≤ δ + δ mod 2` of `CompressSpecAt` is `2|v − rep| ≤ δ` when `δ` is even, and
when `δ` is odd the class that attains `δ` admits no integer representative with
`2|v − rep| ≤ δ` for both of its ends — `δ + 1` is then the best possible. -/
theorem compress_tolerance_attained (values : List Int) (maxSize : Nat) (hmax : 1 ≤ maxSize)
    (hr : ∀ v ∈ values, -2147483648 ≤ v ∧ v ≤ 2147483647) :
    ∃ table m δ, compress values maxSize = .ok (table, m) ∧ 0 ≤ δ ∧
      CompressSpecAt values maxSize table m δ ∧ Attained values m δ := by
  obtain ⟨table, m, δ, h1, h2, h3, h4, _⟩ := compress_meets_spec_strong values maxSize hmax hr
  exact ⟨table, m, δ, h1, h2, h3, h4⟩

/-- **tfm_table_check_sound.** The checker that the correspondence runs on the dimension tables
of the *serialised and re-read* TFM file produced from a property list (stream `tf`) is sound:
if it accepts, the table and the indices the characters carry satisfy `CompressSpec` for the
values that are compressed, with the **true** PLtoTF limit `tfmLimit kind` (255 widths, 15
heights, 15 depths, 63 italic corrections — constants of the specification, from the 8/4/4/6-bit
index fields with entry 0 reserved). -/
theorem tfm_table_check_sound (kind : Nat) (charVals table : List Int) (idx : List (Int × Nat))
    (h : checkTfmTable kind charVals table idx = (true, true, true, true)) :
    CompressSpec (if kind = 0 then charVals else charVals.filter (· != 0)) (tfmLimit kind) table idx := by
  simp only [checkTfmTable, Prod.mk.injEq] at h
  apply checkCompress_sound
  rw [← Prod.eta (checkCompress _ _ _ _), ← Prod.eta (checkCompress _ _ _ _).2]
  simp only [h.1, h.2.1, h.2.2.1]

example : tfmLimit 0 = 2 ^ 8 - 1 ∧ tfmLimit 1 = 2 ^ 4 - 1 ∧ tfmLimit 2 = 2 ^ 4 - 1 ∧ tfmLimit 3 = 2 ^ 6 - 1 := by
  decide

/-- **representative_optimal.** The representative the code chooses for an interval
`first ≤ … ≤ last`, `(last + first) / 2`, is a best integer centre: for every member `v` and
every integer `r`, `|v − rep|` is at most the distance of `r` to one of the two ends. -/
theorem representative_optimal (f l v r : Int) (h1 : f ≤ v) (h2 : v ≤ l) :
    absI (v - Int.tdiv (l + f) 2) ≤ absI (f - r) ∨ absI (v - Int.tdiv (l + f) 2) ≤ absI (l - r) :=
  rep_minimax f l v r h1 h2

/-- **no_integer_representative_better.** Why `CompressSpec` reads `2|v − rep| ≤ δ + δ mod 2`
("within half the tolerance" exactly when `δ` is even, half a unit more when it is odd): two
values an odd `δ` apart have no integer within `δ/2` of both. -/
theorem no_integer_representative_better (f l r : Int) (hodd : (l - f) % 2 = 1) :
    ¬ (2 * absI (f - r) ≤ l - f ∧ 2 * absI (l - r) ≤ l - f) :=
  no_half_when_odd f l r hodd

/-- The extremes of the `i32` range (a panic before /repo 3d2d8d9) are handled. -/
example : compress [-2147483648, 2147483647] 1 =
    .ok ([0, 0], [(-2147483648, 1), (2147483647, 1)]) := by decide

/-- Non-vacuity: the documented example `[1, 4, 5]` with one class more than allowed. -/
example : compress [1, 4, 5, 100, 101] 2 = .ok ([0, 3, 100], [(1, 1), (4, 1), (5, 1), (100, 2), (101, 2)]) := by
  decide
example : checkCompress [1, 4, 5, 100, 101] 2 [0, 3, 100] [(1, 1), (4, 1), (5, 1), (100, 2), (101, 2)]
    = (true, true, true) := by decide

/-! ## 5. Deepening round: reader totality, index remapping, exact guards -/

/-- **parse_total_range.** On *arbitrary* text the PL decimal reader (characters: spaces, the
`R`/`D` prefix, runs of signs, digits before and after the point, only the first seven fraction
digits used) returns either a value in `(−2^31, 2^31)` without warning, or `DecimalNumberIsTooBig`
with the documented replacement `0` / `1.0`, or `InvalidPrefixForDecimalNumber` with `0`. The
lemmas behind it (`readInt_range`, `fracAcc_bound`, `fracValue_range`) bound every accumulator
far inside `i32`: the `checked_mul/checked_add(..).unwrap()` of the Rust reader cannot fire,
which is why the model has no panic outcome there. -/
theorem parse_total_range (s : List Char) :
    ((parseFix s).warn = .none → -2147483648 < (parseFix s).value ∧ (parseFix s).value < 2147483648) ∧
    ((parseFix s).warn = .tooBig → (parseFix s).value = 0 ∨ (parseFix s).value = 1048576) ∧
    ((parseFix s).warn = .invalidPrefix → (parseFix s).value = 0) :=
  parseFix_range s

/-- **parse_accumulators_in_i32.** The integer accumulator stays in `[0, 2048]` (so
`acc·10 + d ≤ 20489`), the fraction accumulator in `[0, 10·2^21)`, the rounded fraction in
`[0, 2^20]`, for every text. -/
theorem parse_accumulators_in_i32 (s : List Char) :
    (0 ≤ (readInt s 0).1 ∧ (readInt s 0).1 ≤ 2048) ∧
    (0 ≤ fracAcc (readFracDigits 7 s).1 ∧ fracAcc (readFracDigits 7 s).1 ≤ 20971519) ∧
    (0 ≤ fracValue (readFracDigits 7 s).1 ∧ fracValue (readFracDigits 7 s).1 ≤ 1048576) :=
  ⟨readInt_range s 0 (Int.le_refl 0) (by omega), fracAcc_bound _ (readFracDigits_range 7 s).1,
    fracValue_range _ (readFracDigits_range 7 s).1⟩

example : parseFix "R 2047.9999999".toList = ⟨1048576, .tooBig⟩ ∧
    parseFix "D -.00000049999".toList = ⟨0, .none⟩ ∧ parseFix "X".toList = ⟨0, .invalidPrefix⟩ ∧
    parseFix "R --+ -2047.9999994".toList = ⟨-2147483647, .none⟩ := by decide

/-- **remap_spec.** The model `remapDim` of one dimension of `impl From<pl::File> for tfm::File`
(compress the characters' values with the true class limit `tfmLimit kind` — all widths, the
non-zero heights / depths / italic corrections —, then give every character the index of its
value, zero heights/depths/italics index 0) never panics for `i32` values and: the table starts
with `0` and has at most `tfmLimit kind + 1` entries; every character's index is at most
`tfmLimit kind` (fits the 8/4/4/6-bit field, no wrap) and points at an entry within half the
tolerance of the character's value (`2|v − rep| ≤ δ + δ mod 2`; exactly `0` for a zero
height/depth/italic); the tolerance is minimal over all covers by `tfmLimit kind` intervals. The
`tf` stream compares the real table and every character's index, read back from the serialised
file, with `remapDim`. -/
theorem remap_spec (kind : Nat) (charVals : List Int)
    (hr : ∀ v ∈ charVals, -2147483648 ≤ v ∧ v ≤ 2147483647) :
    ∃ table idx δ, remapDim kind charVals = .ok (table, idx) ∧ idx.length = charVals.length ∧
      table.head? = some 0 ∧ table.length ≤ tfmLimit kind + 1 ∧ 0 ≤ δ ∧
      (∀ (j : Nat) (v : Int) (i : Nat), charVals[j]? = some v → idx[j]? = some i →
        i ≤ tfmLimit kind ∧ (v = 0 → kind ≠ 0 → i = 0) ∧
        ∃ rep, table[i]? = some rep ∧ 2 * absI (v - rep) ≤ δ + δ % 2) ∧
      (∀ δ' C, 0 ≤ δ' → δ' < δ → C.length ≤ tfmLimit kind →
        ¬ Covers δ' C (if kind = 0 then charVals else charVals.filter (· != 0))) :=
  remapDim_spec kind charVals hr

example : remapDim 1 [0, 100, 200, 0, 300] = .ok ([0, 100, 200, 300], [0, 1, 2, 0, 3]) := by decide

/-- **to_scaled_defined_iff.** The exact guard of `to_scaled` for non-negative design sizes:
on `i32` words it returns a value (no assert, no overflow) if and only if `−16 ≤ v < 16`. -/
theorem to_scaled_defined_iff (v ds : Int) (hds0 : 0 ≤ ds) (hds1 : ds ≤ 2147483647)
    (hi0 : -2147483648 ≤ v) (hi1 : v ≤ 2147483647) :
    (toScaled v ds).isSome = true ↔ (-16777216 ≤ v ∧ v < 16777216) := by
  constructor
  · intro h
    apply Classical.byContradiction
    intro hn
    have := (to_scaled_guard v ds hi0 hi1 (by omega)).1
    rw [this] at h
    simp at h
  · intro ⟨h0, h1⟩
    obtain ⟨e, hs⟩ := to_scaled_eq_store_scaled v ds hds0 hds1 h0 h1
    rw [e]; exact hs

/-- **to_scaled_negative_design_size.** Negative design sizes are outside TeX (§568 aborts below
1pt) and outside the property; the exact behaviour of the Rust code there: for
`−128pt ≤ design size < 0` (`z ∈ [−2^23, 0]`) and a legal word no overflow check fires (the
value is the same formula with truncating divisions); below that it can overflow (witness). -/
theorem to_scaled_negative_design_size (v ds : Int) (hds0 : -134217728 ≤ ds) (hds1 : ds < 0)
    (h0 : -16777216 ≤ v) (h1 : v < 16777216) : (toScaled v ds).isSome = true :=
  toScaled_neg_defined v ds hds0 hds1 h0 h1

example : toScaled 1048576 (-1048576) = some (-65536) ∧ toScaled 16777215 (-2147483648) = none := by
  decide

/-- **sign_mutant_unobservable** (sweep mutant 08, `negative = true`): on every printed
fix_word the mutated sign loop of the reader decides exactly like the real one, so the property
(print, then read) cannot observe it; the `ps` stream (arbitrary text) does. -/
theorem sign_mutant_unobservable (v : Int) (hlo : -2147483648 ≤ v) (hhi : v ≤ 2147483647) :
    readSignsT (printFix v) false = readSigns (printFix v) false := by
  by_cases h : v = -2147483648
  · subst h; exact signs_mutant_same_at_min
  · exact signs_mutant_same_on_printed v (by omega) hhi

/-- Sweep mutant 02 (zero printed as `-0.0`): the reader returns the same word. -/
example : parseFix "R -0.0".toList = ⟨0, .none⟩ ∧ parseFix (plText 0) = ⟨0, .none⟩ := by decide

/-- **late_break_equivalent** (sweep mutant 23, `buffer.len() > max_size + 1`): a candidate pass
of `compress` whose early `break` comes `extra` intervals later returns the same solution (and
`delta_lower`) whenever the real pass finds one, and says "not a solution" exactly when the
real pass does, with a `delta_upper` not above the real one. So the binary search is asked the
same question at every step; the mutant only does more work. -/
theorem late_break_equivalent (extra : Nat) (delta : Int) (maxSize : Nat) (l : List Int)
    (start dlo dhi : Int) (cur : List Int) (done : List (List Int)) :
    (∀ cls d, passLoop delta maxSize l start dlo dhi cur done = .sol cls d →
      passLoopL extra delta maxSize l start dlo dhi cur done = .sol cls d) ∧
    (∀ d, passLoop delta maxSize l start dlo dhi cur done = .fail d →
      ∃ d', passLoopL extra delta maxSize l start dlo dhi cur done = .fail d' ∧ d' ≤ d) :=
  ⟨fun cls d h => late_break_sol extra delta maxSize l start dlo dhi cur done cls d h,
   fun d h => late_break_fail extra delta maxSize l start dlo dhi cur done d h⟩

end C17
