import TexcraftModel.Lemmas.C05
import TexcraftModel.Lemmas.C05Loop
import TexcraftModel.Lemmas.C05Sem
import TexcraftModel.Lemmas.C05Raw
import TexcraftModel.Lemmas.C05Text
import TexcraftModel.Lemmas.C05Typed

/-!
# C05 — property theorems

Only the statements that *are* the property live here (helper lemmas: `Lemmas/C05*.lean`).

* `spell`               the output of the compiled program spells the word (every program, every word)
* `loop_exact_fuel`     M's loop verdict (evaluation with the fixed fuel `bound p` fails) is
                        exact: it fails iff evaluation fails with every fuel (pigeonhole)
* `loop_exact`          the compiler's evaluation of a pair never finishes iff the raw
                        instructions for that pair never terminate in TeX's cursor machine
* `loop_report_exact`   the two combined: M leaves a pair unresolved iff S never terminates on it
* `table_pair`          one table entry = the cursor machine on the two-element sequence
* `compiled_eq_interp`  every non-empty word, with and without both boundaries: the glyph/kern
                        sequence of the compiled run is the result of the cursor machine
* `spell_noLB`, `compiled_eq_interp_noLB`  the same for `RunOptions::disable_left_boundary`
* `op_byte_abc`, `raw_rule`, `raw_compiled_eq_interp`  from the raw lig/kern words of a TFM file:
                        the crate's decoding gives every pair the command TeX executes on the
                        words themselves; raw words → compiled program → run = TeX's main loop
* `add_word_sem`, `add_text_cut`  the call site in boxworks-text: a word's nodes are the cursor
                        machine's output in the active font; a text is cut at its glue into the
                        words of `split_ascii_whitespace`
* `typed_refines`       the machine with node types has the glyph sequence of `interp`
* `typed_compiled_eq_interp`  the compiled run types every item (character / ligature node) as
                        the typed machine does
* `spell_override`, `compiled_eq_interp_override`  the same for any `RunOptions`: the override
                        replaces the right boundary character of the run
-/
namespace C05

/-! ## The output spells the word -/

/-- For every program and every word: the characters recorded on the output of the compiled
program (plain characters plus each ligature's originals) are exactly the input word. -/
theorem spell (p : Program) (w : List Nat) : originals (runM p w) = w := by
  have := (goL_spell (table p) p.rb (table_good p) w).1 none
  simpa [runM, runCompiled] using this

/-- `f i → fi` (one `LIG` rule). -/
def exFi : Program := Program.mk [Instr.mk none 105 (.lig 12 .neither)] none none [(102, 0)] []

example : runM exFi [97, 102, 105, 98] = [.ch 97, .lig 12 [102, 105] false false, .ch 98] := by decide
example : originals (runM exFi [97, 102, 105, 98]) = [97, 102, 105, 98] := by decide

/-! ## Loops are detected exactly -/

/-- More fuel never changes the value computed for a pair. -/
theorem fuel_mono (p : Program) {n m : Nat} (h : n ≤ m) {l : Option Nat} {r : Nat} {v : Option Repl}
    (hv : pairResult n p l r = some v) : pairResult m p l r = some v :=
  pairResult_mono p h hv

example : pairResult 1 exFi (some 102) 105 = some (some ([], ⟨12, true⟩)) := by decide

/-- Pigeonhole: a chain of dependencies longer than the number of candidate pairs repeats a
pair, so the fixed fuel `bound p` decides: M reports the pair as looping (leaves it out of the
table) iff its evaluation fails with *every* amount of fuel. -/
theorem loop_exact_fuel (p : Program) (l : Option Nat) (r : Nat) :
    loopsM p l r = true ↔ ∀ fuel, pairResult fuel p l r = none := by
  simp only [loopsM, Option.isNone_iff_eq_none]
  constructor
  · intro h fuel
    cases hv : pairResult fuel p l r with
    | none => rfl
    | some v => rw [pairResult_bound p hv] at h; cases h
  · intro h; exact h _

/-- The compiler's evaluation of a pair never finishes exactly when the raw instructions for
that pair never terminate (TeX's cursor machine on the two-element sequence `l r`, `l` possibly
the left boundary). -/
theorem loop_exact (p : Program) (l : Option Nat) (r : Nat) :
    pairLoops p l r ↔ ∀ fuel, pairResult fuel p l r = none := by
  constructor
  · intro hloop fuel
    cases hv : pairResult fuel p l r with
    | none => rfl
    | some v =>
      exfalso
      cases v with
      | none =>
        have hr := pairResult_none_rule p _ _ _ hv
        have := Interp.noRule (elOf l) (.ch r) [] _ (elOf_ne_rb l)
          (by rw [lookup_ch]; exact hr) (Interp.single (.ch r))
        obtain ⟨f, hf⟩ := interp_complete p this
        rw [pairLoops] at hloop
        have := hloop f
        rw [hf] at this; cases this
      | some rep =>
        have := sem_real p _ l r rep hv [] _ (Interp.single (.ch rep.2.c))
        obtain ⟨f, hf⟩ := interp_complete p this
        rw [pairLoops] at hloop
        have := hloop f
        rw [hf] at this; cases this
  · intro hnone f
    cases hi : interp p f [elOf l, El.ch r] with
    | none => rfl
    | some out =>
      exfalso
      obtain ⟨n, v, hp, -⟩ := decomp p f (elOf l) r [] out (elOf_ne_rb l) hi
      rw [elOf_left, hnone n] at hp
      cases hp

/-- "Compilation reports an infinite loop exactly when the instructions for some character
pair never terminate": M leaves the pair out of the table iff S never terminates on it. -/
theorem loop_report_exact (p : Program) (l : Option Nat) (r : Nat) :
    loopsM p l r = true ↔ pairLoops p l r :=
  (loop_exact_fuel p l r).trans (loop_exact p l r).symm

/-- The documentation example of ligkern/mod.rs: `x y → z y → x y → …` (two `LIG/` rules). -/
def exLoop : Program :=
  Program.mk [Instr.mk none 121 (.lig 122 .rightInserted), Instr.mk none 121 (.lig 120 .rightInserted)]
    none none [(120, 0), (122, 1)] []

example : loopsM exLoop (some 120) 121 = true := by decide

/-- A chain that revisits a *character* but not a pair: `c b → a b → b b` (then no rule);
the pairs visited are distinct, so this is not a loop. -/
def exNoLoop : Program :=
  Program.mk [Instr.mk none 98 (.lig 98 .rightInserted), Instr.mk none 98 (.lig 97 .rightInserted)]
    none none [(97, 0), (99, 1)] []

example : loopsM exNoLoop (some 99) 98 = false := by decide

/-! ## Compiled = interpreted -/

/-- One table entry is the cursor machine on its pair: with any continuation `tail`, the
machine started on `l r tail` emits the entry's ops and then stands on `last` before the
same `tail`. (`Interp` is the big-step form of `interp`; see `interp_complete`.) -/
theorem table_pair (p : Program) (l : Option Nat) (r : Nat) (rep : Repl)
    (h : table p l r = some rep) (tail : List El) (out : List Glyph) (fuel : Nat)
    (hcont : interp p fuel (.ch rep.2.c :: tail) = some out) :
    ∀ fuel' out', interp p fuel' (elOf l :: .ch r :: tail) = some out' → out' = gl rep.1 ++ out := by
  intro fuel' out' h'
  obtain ⟨n, v, hp, f1, o1, _, hi1⟩ := decomp p fuel' (elOf l) r tail out' (elOf_ne_rb l) h'
  rw [elOf_left] at hp
  have hb := pairResult_bound p hp
  rw [table_some p l r rep h] at hb
  cases hb
  -- the continuation terminates, so the relational run exists and `interp` is deterministic
  have hI : Interp p (.ch rep.2.c :: tail) out → Interp p (elOf l :: .ch r :: tail) (gl rep.1 ++ out) :=
    sem_real p _ l r rep (table_some p l r rep h) tail out
  -- rebuild the continuation relationally from its fuelled run
  suffices hs : Interp p (.ch rep.2.c :: tail) out by
    obtain ⟨f2, hf2⟩ := interp_complete p (hI hs)
    exact interp_det p h' hf2
  exact interp_sound p hcont

example : table exFi (some 102) 105 = some ([], ⟨12, true⟩) := by decide
example : interp exFi 5 [.ch 12, .ch 98] = some [.glyph 12, .glyph 98] := by decide
example : interp exFi 5 [.ch 102, .ch 105, .ch 98] = some [.glyph 12, .glyph 98] := by decide

/-- **Compiled programs equal direct interpretation.** For every program all of whose pairs
resolve (`acyclicB`, decidable; the compiler reports no infinite loop) and every non-empty
word, with or without a left-boundary program and a right boundary character: TeX's cursor
machine terminates on `[LB] w [RB?]`, and its output is the glyph/kern sequence of the
compiled run — for every amount of fuel with which it terminates. -/
theorem compiled_eq_interp (p : Program) (w : List Nat) (hac : acyclicB p = true) (hw : w ≠ []) :
    (∃ fuel, interp p fuel (seqOf p w) = some (glyphs (runM p w))) ∧
    (∀ fuel out, interp p fuel (seqOf p w) = some out → out = glyphs (runM p w)) := by
  obtain ⟨f, hf⟩ := interp_complete p (runM_sem p hac w hw)
  exact ⟨⟨f, hf⟩, fun fuel out h => interp_det p h hf⟩

/-- Non-vacuity: an acyclic program with a ligature of three built in two passes
(`f f → ff`, `ff i → ffi`), a left-boundary kern (`| a`), and a right-boundary rule
(`ffi | → ffi ! ` with the cursor moved past the inserted character, `/LIG>`). -/
def exBoth : Program :=
  Program.mk
    [Instr.mk (some 0) 105 (.lig 12 .neither), Instr.mk none 102 (.lig 11 .neither),
     Instr.mk none 105 (.lig 14 .neither), Instr.mk none 97 (.kern 5),
     Instr.mk none 124 (.lig 33 .leftInserted)]
    (some 3) (some 124) [(102, 0), (11, 2), (14, 4)] []

example : acyclicB exBoth = true := by decide
example : glyphs (runM exBoth [97, 102, 102, 105]) = [.kern 5, .glyph 97, .glyph 14, .glyph 33] := by decide
example : interp exBoth 20 (seqOf exBoth [97, 102, 102, 105]) = some [.kern 5, .glyph 97, .glyph 14, .glyph 33] := by
  decide

/-! ### The same two laws without the left boundary (`RunOptions::disable_left_boundary`) -/

theorem spell_noLB (p : Program) (w : List Nat) : originals (runNoLB p w) = w := by
  cases w with
  | nil => rfl
  | cons c rest =>
    have := (goL_spell (table p) p.rb (table_good p) rest).1 (some c)
    simpa [runNoLB] using this

theorem compiled_eq_interp_noLB (p : Program) (w : List Nat) (hac : acyclicB p = true) (hw : w ≠ []) :
    (∃ fuel, interp p fuel (seqNoLB p w) = some (glyphs (runNoLB p w))) ∧
    (∀ fuel out, interp p fuel (seqNoLB p w) = some out → out = glyphs (runNoLB p w)) := by
  cases w with
  | nil => exact absurd rfl hw
  | cons c rest =>
    have hI : Interp p (seqNoLB p (c :: rest)) (glyphs (runNoLB p (c :: rest))) := by
      have := goL_sem p hac rest c true none
      simpa [seqNoLB, runNoLB, rbEl] using this
    obtain ⟨f, hf⟩ := interp_complete p hI
    exact ⟨⟨f, hf⟩, fun fuel out h => interp_det p h hf⟩

example : glyphs (runNoLB exBoth [97, 102, 102, 105]) = [.glyph 97, .glyph 14, .glyph 33] := by decide

/-! ### Caller-supplied right boundary (`RunOptions::right_boundary_override`) -/

/-- Running with override `ov` (with or without the left boundary) is the cursor machine on
`[LB?] w [RB?]` where the right boundary character is the override if there is one and the
font's own boundary character otherwise. -/
theorem compiled_eq_interp_override (p : Program) (noLB : Bool) (ov : Option Nat) (w : List Nat)
    (hac : acyclicB p = true) (hw : w ≠ []) :
    let p' := withRb p (effRb p ov)
    let s := if noLB then seqNoLB p' w else seqOf p' w
    (∃ fuel, interp p' fuel s = some (glyphs (runOpt p noLB ov w))) ∧
    (∀ fuel out, interp p' fuel s = some out → out = glyphs (runOpt p noLB ov w)) := by
  intro p' s
  have hac' : acyclicB p' = true := by rw [acyclicB_withRb]; exact hac
  cases noLB with
  | false =>
    have e : runOpt p false ov w = runM p' w := by
      simp only [runOpt, runM, p', table_withRb]
      rfl
    simp only [s, e]
    exact compiled_eq_interp p' w hac' hw
  | true =>
    have e : runOpt p true ov w = runNoLB p' w := by
      cases w with
      | nil => rfl
      | cons c rest =>
        simp only [runOpt, runNoLB, p', table_withRb]
        rfl
    simp only [s, e]
    exact compiled_eq_interp_noLB p' w hac' hw

theorem spell_override (p : Program) (noLB : Bool) (ov : Option Nat) (w : List Nat) :
    originals (runOpt p noLB ov w) = w := by
  cases noLB with
  | false =>
    have := (goL_spell (table p) (effRb p ov) (table_good p) w).1 none
    simpa [runOpt, runCompiled] using this
  | true =>
    cases w with
    | nil => rfl
    | cons c rest =>
      have := (goL_spell (table p) (effRb p ov) (table_good p) rest).1 (some c)
      simpa [runOpt] using this

-- the override wins over the font's own boundary character: `exBoth` has boundary `|` (124)
-- with a rule `ffi |`; under override `z` (122, no rules) that rule does not fire
example : glyphs (runOpt exBoth false none [102, 102, 105]) = [.glyph 14, .glyph 33] := by decide
example : glyphs (runOpt exBoth false (some 122) [102, 102, 105]) = [.glyph 14] := by decide
example : glyphs (runOpt exBoth false (some 124) [102, 102, 105]) = [.glyph 14, .glyph 33] := by decide

/-! ### Node types

`interpT` is the cursor machine with node types (a ligature node = a character that an
instruction inserted). `typed_refines`: its glyph sequence is that of `interp`.
`typed_compiled_eq_interp`: the compiled run types its items exactly as the machine does. -/

theorem typed_refines (p : Program) (fuel : Nat) (s : List (El × Bool)) :
    (interpT p fuel s).map (List.map TGlyph.erase) = interp p fuel (s.map Prod.fst) :=
  interpT_erase p fuel s

/-- **Characters, ligature glyphs and kerns.** If no pair loops, then for every non-empty word
the typed cursor machine terminates on `[LB] w [RB?]` and its output — each glyph with the
information whether it is a character node or a ligature node, and the kerns — is exactly the
item sequence of the compiled run (`Item.ch` ↦ character, `Item.lig` ↦ ligature). -/
theorem typed_compiled_eq_interp (p : Program) (w : List Nat) (hac : acyclicB p = true) (hw : w ≠ []) :
    (∃ fuel, interpT p fuel ((seqOf p w).map (fun e => (e, false))) = some ((runM p w).map Item.tglyph)) ∧
    (∀ fuel out, interpT p fuel ((seqOf p w).map (fun e => (e, false))) = some out →
      out = (runM p w).map Item.tglyph) := by
  obtain ⟨f, hf⟩ := interpT_complete p (runM_semT p hac w hw)
  exact ⟨⟨f, hf⟩, fun fuel out h => interpT_det p h hf⟩

example : interpT exBoth 20 ((seqOf exBoth [97, 102, 102, 105]).map (fun e => (e, false)))
    = some [.kern 5, .glyph 97 false, .glyph 14 true, .glyph 33 true] := by decide
example : (runM exBoth [97, 102, 102, 105]).map Item.tglyph
    = [.kern 5, .glyph 97 false, .glyph 14 true, .glyph 33 true] := by decide

/-! ### From the raw words of a TFM file

`decodeFont` is the crate's reader (`Instruction::deserialize`, `lig_kern_operation_from_bytes`,
`deserialize_lig_kern_program`, `unpack_entrypoint` in `compile_from_tfm_file`); `texRule`,
`texBchar`, `interpRaw` are TeX's own reading of the same words, indexed from `lig_kern_base`
(TeX82 §573, §1034, §1039, §1040). -/

/-- Op bytes: for the eight codes of TeX82 §545 the decoded form does what `op = 4a+2b+c`
says (pass over `a`, keep current iff `b`, keep next iff `c`). -/
theorem op_byte_abc : ∀ op ∈ [0, 1, 2, 3, 5, 6, 7, 11],
    (formM op).abc = (op / 4, op / 2 % 2 == 1, op % 2 == 1) := by decide

/-- For every pair, the program the crate decodes from the raw words has the command that TeX
executes when it walks the words itself: start at `lig_kern_start` / `lig_kern_restart` /
`bchar_label`, compare `next_char`, never execute a word with `skip_byte > stop_flag`, stop at
`skip_byte ≥ stop_flag`, else continue at `k + skip_byte + 1`; kerns by index, op bytes by
§1040. (Characters have one `char_info` word each: distinct keys.) -/
theorem raw_rule (f : RawFont) (hnd : (f.tags.map Prod.fst).Nodup) (l : Option Nat) (r : Nat) :
    specRule (decodeFont f) l r = texRule f l r ∧ (decodeFont f).rb = texBchar f := by
  rw [specRule_eq_rule]
  exact ⟨rule_decode f hnd l r, rfl⟩

/-- **Raw bytes → compiled program → run**, end to end: if the compiler reports no loop for
the decoded program, then for every non-empty word TeX's main loop *on the raw words*
terminates and its output is the glyph/kern sequence of the compiled run. -/
theorem raw_compiled_eq_interp (f : RawFont) (hnd : (f.tags.map Prod.fst).Nodup) (w : List Nat)
    (hac : acyclicB (decodeFont f) = true) (hw : w ≠ []) :
    (∃ fuel, interpRaw f fuel (seqRaw f w) = some (glyphs (runM (decodeFont f) w))) ∧
    (∀ fuel out, interpRaw f fuel (seqRaw f w) = some out → out = glyphs (runM (decodeFont f) w)) := by
  have hr : texRule f = specRule (decodeFont f) := by
    funext l r; exact ((raw_rule f hnd l r).1).symm
  have hi : ∀ fuel s, interpRaw f fuel s = interp (decodeFont f) fuel s := by
    intro fuel s
    simp only [interpRaw, hr]
    exact interpG_spec (decodeFont f) fuel s
  have hs : seqRaw f w = seqOf (decodeFont f) w := rfl
  simp only [hi, hs]
  exact compiled_eq_interp (decodeFont f) w hac hw

/-- A font in raw words: boundary char `|` (first word, skip 255), character `f` starts at a
redirect word (word 1 → word 3), `f f → LIG ff` (op 0), `f i → kern 0`, left-boundary program
at word 5 (`| f → | !` with the cursor past `!`, op 6 = `/LIG>`), read from the last word. -/
def exRaw : RawFont :=
  { words := [⟨255, 124, 0, 0⟩, ⟨254, 0, 0, 3⟩, ⟨128, 0, 0, 0⟩, ⟨0, 102, 0, 11⟩, ⟨128, 105, 128, 0⟩,
              ⟨128, 102, 6, 33⟩, ⟨255, 0, 0, 5⟩],
    kerns := [7], tags := [(102, 1)] }

example : (exRaw.tags.map Prod.fst).Nodup := by decide
example : acyclicB (decodeFont exRaw) = true := by decide
example : texRule exRaw (some 102) 102 = some (.lig 11 .neither) := by decide
example : texRule exRaw none 102 = some (.lig 33 .leftInserted) := by decide
example : glyphs (runM (decodeFont exRaw) [102, 102, 105]) = [.glyph 33, .glyph 102, .kern 7, .glyph 105] := by
  decide
example : interpRaw exRaw 20 (seqRaw exRaw [102, 102, 105]) = some [.glyph 33, .glyph 102, .kern 7, .glyph 105] := by
  decide
example : interpRaw exRaw 20 (seqRaw exRaw [97, 102, 102, 105]) = some [.glyph 97, .glyph 11, .glyph 105] := by
  decide

/-! ### The call site: `add_word` / `add_text` of the text preprocessor

`addWord`, `addText` model `TextPreprocessorImpl::add_word` and `TextPreprocessor::add_text`
(nodes and their order; the amount of glue is C12's). -/

/-- One word: the character/ligature/kern nodes `add_word` appends are, in order, what TeX's
cursor machine produces on `[LB] w [RB?]` with the active font's program; every character and
ligature node carries the active font; there is no glue inside a word. -/
theorem add_word_sem (p : Program) (font : Nat) (w : List Nat) (hac : acyclicB p = true) (hw : w ≠ []) :
    (∃ fuel, interp p fuel (seqOf p w) = some ((addWord p font w).flatMap HNode.glyph)) ∧
    (∀ n ∈ addWord p font w, n.fontOk font = true ∧ n ≠ HNode.glue) := by
  rw [addWord_glyphs]
  exact ⟨(compiled_eq_interp p w hac hw).1,
    fun n hn => ⟨addWord_fonts p font w n hn, addWord_noGlue p font w n hn⟩⟩

/-- A text: cutting the list `add_text` produces at its glue nodes gives exactly one segment per
word of `split_ascii_whitespace` (preceded by an empty segment iff the text starts with white
space), each being `add_word` of that word; the words are non-empty, so `add_word_sem` applies
to every segment — word boundaries are where the left and right boundary rules fire. -/
theorem add_text_cut (p : Program) (font : Nat) (t : List Nat) :
    cutAtGlue (addText p font t) =
      (if (match t with | c :: _ => isWs c | [] => true) then [[]] else []) ++ (splitWs t).map (addWord p font)
    ∧ ∀ w ∈ splitWs t, w ≠ [] := by
  refine ⟨?_, splitWs_nonempty t⟩
  cases t with
  | nil => rfl
  | cons c rest =>
    simp only [addText]
    rcases Bool.eq_false_or_eq_true (isWs c) with hc | hc
    · simp only [hc, if_true, cut_addWords_true, List.cons_append, List.nil_append]
    · cases hs : splitWs (c :: rest) with
      | nil => exact absurd hs (splitWs_ne_nil_of_head c rest hc)
      | cons w ws =>
        simp only [hc, Bool.false_eq_true, if_false, cut_addWords_false, List.nil_append]

example : splitWs [32, 97, 32, 32, 98, 99, 32] = [[97], [98, 99]] := by decide
example : addText exBoth 3 [102, 102, 105, 32, 97] =
    [.lig 14 3 [102, 102, 105] false false, .lig 33 3 [] false true, .glue, .kern 5, .ch 97 3] := by decide

/-- The hypothesis of `compiled_eq_interp` cannot be dropped: on a program with a looping
pair the machine does not terminate on a word that reaches it, while the compiled run does
(it treats the unresolved pair as having no rule). -/
example : acyclicB exLoop = false ∧ runM exLoop [120, 121] = [.ch 120, .ch 121] ∧
    interp exLoop 40 (seqOf exLoop [120, 121]) = none :=
  ⟨by decide, by decide, by decide⟩

end C05
