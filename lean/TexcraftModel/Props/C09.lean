import TexcraftModel.Lemmas.C09
import TexcraftModel.Lemmas.C09Trace
import TexcraftModel.Lemmas.C09Alloc
import TexcraftModel.Props.C06

/-!
# C09 — interpreter totality: what is proved

"No Rust statement in two crates panics" is not a theorem a hand model can carry. Proved here,
for all inputs, are the parts of totality that are protocol and arithmetic (DESIGN 5.10):

* `protocol_safe`, `protocol_eq_spec` — the shutdown protocol: if every action respects the
  contract of `ShutdownSignal`, `VM::run` reaches neither `unreachable!()` nor
  "shutdown signal ignored", in any interaction mode and under any mode switches, and its
  result is the one the specification gives; each way of breaking the contract reaches a panic
  (`example`s);
* `excerpt_total`, `excerpt_located`, `excerpt_whole` — the source excerpt of a rendered
  error slices only at character boundaries and highlights exactly the characters asked for
  (with fixes/C09-e.patch; `highlightOld_panics` is the witness against the code as it was, and
  `excerpt_old_ascii_partial` says the old code was right on one-byte-per-character lines);
* `trace_total`, `trace_locates`, `trace_eoi_total` — `Tracer::trace` never underflows, slices at a boundary, and
  reports the line number, character position and line content of the token, whatever
  multi-byte characters the text contains;
* `char_from_code_total`, `char_from_code_scalar` (fixes/C09-a.patch; `charFromCodeOld_panics`),
  `uint_bound_total`, `ifcase_counter_total`, `ifcase_select_spec`;
* the numeric kernels' totality, restated from C06 (`scan_int_total`, `scan_dimen_total`,
  `xn_over_d_total`, `nx_plus_y_total`, `print_scaled_total`).

The full property is NOT proved:

  def C09_full_statement : Prop :=
    ∀ (input : String) (m : Mode), VM.run (the two crates) on input in mode m
      = Ok ∨ = Err (located, renders)        -- no panic anywhere

Totality of the rest of the interpreter (every primitive, the lexer, macro expansion) is
explored by the generator of `harness/src/bin/c09.rs`, not proved; the primitives'
adherence to the `ShutdownSignal` contract is the *hypothesis* of `protocol_safe`.
-/
namespace C09

/-! ## Shutdown protocol -/

/-- If every action respects the contract, `run` ends with `Ok` or `Err(error)`: it reaches
neither `unreachable!()` nor `panic!("shutdown signal ignored")` — whatever the initial
interaction mode, however the mode is switched, however many recoverable errors occur. -/
theorem protocol_safe (m : Mode) (evs : List Ev) (h : ∀ e ∈ evs, e.respects = true) :
    run m evs = .ok ∨ run m evs = .err := by
  unfold run
  rw [runLoop_eq_spec m evs h]
  exact specRun_ok_or_err m evs

/-- … and the result is the specified one: an error exactly when a fatal error, or a
recoverable error in errorstop mode, comes before the first shutdown request. -/
theorem protocol_eq_spec (m : Mode) (evs : List Ev) (h : ∀ e ∈ evs, e.respects = true) :
    run m evs = specRun m evs := by
  unfold run
  exact runLoop_eq_spec m evs h

/-- Scroll, nonstop and batch mode never turn a recoverable error into a fatal one: without
fatal errors and mode switches the run succeeds. -/
theorem protocol_recovering_modes (m : Mode) (hm : m ≠ .errorstop) (evs : List Ev)
    (h : ∀ e ∈ evs, e = .ok ∨ e = .recoverable ∨ e = .shutdown) : run m evs = .ok := by
  rw [protocol_eq_spec m evs (by
    intro e he
    rcases h e he with rfl | rfl | rfl <;> rfl)]
  induction evs with
  | nil => rfl
  | cons e es ih =>
    have hes : ∀ e ∈ es, e = .ok ∨ e = .recoverable ∨ e = .shutdown := fun x hx => h x (by simp [hx])
    rcases h e (by simp) with rfl | rfl | rfl
    · simpa [specRun] using ih hes
    · simpa [specRun, hm] using ih hes
    · simp [specRun]

-- the hypotheses are met by non-trivial runs
example : ∀ e ∈ [Ev.recoverable, .setMode .errorstop, .ok, .recoverable, .ok], e.respects = true := by decide
example : run .batch [.recoverable, .setMode .errorstop, .ok, .recoverable, .ok] = .err := by decide
example : run .scroll [.recoverable, .recoverable, .ok] = .ok := by decide
example : run .errorstop [.ok, .shutdown, .fatal] = .ok := by decide
-- the contract is necessary: each way of breaking it reaches a panic
example : run .errorstop [.ignFatal] = .panicIgnored := by decide
example : run .batch [.ignShutdown, .ok] = .panicIgnored := by decide
example : run .errorstop [.ignRecoverable, .recoverable] = .panicIgnored := by decide
example : run .nonstop [.spurious] = .panicUnreachable := by decide
-- … but not always (a dropped signal in a recovering mode is harmless)
example : run .scroll [.ignRecoverable, .ok] = .ok := by decide

/-! ## Error excerpts -/

/-- The excerpt never slices at a non-boundary nor out of range, for every line, character
index and length (also far beyond the line). -/
theorem excerpt_total (line : List Char) (start len : Nat) : highlight line start len ≠ .panic := by
  unfold highlight byteIndex
  by_cases h2 : start + len ≤ line.length
  · have h1 : start ≤ line.length := by omega
    rw [if_pos h1, if_pos h2]
    simp only []
    rw [byteLen_take_add, if_neg (by omega), splitAtByte_take line start h1]
    simp only []
    have : byteLen (List.take start line) + byteLen (List.take len (List.drop start line))
        - byteLen (List.take start line) = byteLen (List.take len (List.drop start line)) := by omega
    rw [this, splitAtByte_take _ len (by simp; omega)]
    simp
  · rw [if_neg h2]
    cases (if start ≤ line.length then some (byteLen (List.take start line)) else none) <;> simp

/-- When the line has `len` characters from character `start` on, exactly those are
highlighted, preceded by the first `start` characters and followed by the rest (trimmed). -/
theorem excerpt_located (line : List Char) (start len : Nat) (h2 : start + len ≤ line.length) :
    highlight line start len
      = .parts (line.take start) ((line.drop start).take len) (trimEnd (line.drop (start + len))) := by
  unfold highlight byteIndex
  have h1 : start ≤ line.length := by omega
  rw [if_pos h1, if_pos h2]
  simp only []
  rw [byteLen_take_add, if_neg (by omega), splitAtByte_take line start h1]
  simp only []
  have : byteLen (List.take start line) + byteLen (List.take len (List.drop start line))
      - byteLen (List.take start line) = byteLen (List.take len (List.drop start line)) := by omega
  rw [this, splitAtByte_take _ len (by simp; omega)]
  simp [List.drop_drop]

/-- Otherwise (a token text that is not on the line, e.g. the `\par` of an empty line or an
end-of-input marker) the line is printed as it is. -/
theorem excerpt_whole (line : List Char) (start len : Nat) (h : line.length < start + len) :
    highlight line start len = .whole line := by
  unfold highlight byteIndex
  rw [if_neg (show ¬ start + len ≤ line.length by omega)]
  cases (if start ≤ line.length then some (byteLen (List.take start line)) else none) <;> simp

/-- Consequently the printed text is the line itself, up to trailing white space. -/
theorem excerpt_text (line : List Char) (start len : Nat) (h2 : start + len ≤ line.length) :
    (highlight line start len).text = some (line.take (start + len) ++ trimEnd (line.drop (start + len))) := by
  rw [excerpt_located line start len h2]
  simp [Excerpt.text, List.take_add]

-- non-vacuity: `é\count`, error token `\count` at character 1
example : highlight ['é', '\\', 'c', 'o', 'u', 'n', 't'] 1 6
    = .parts ['é'] ['\\', 'c', 'o', 'u', 'n', 't'] [] := by decide

/-- The code as it was panics on this line ("byte index 1 is not a char boundary"): the
statement `excerpt_total` is false for `highlightOld` (defect C09-e). -/
theorem highlightOld_panics : highlightOld ['é', '\\', 'c', 'o', 'u', 'n', 't'] 1 6 = .panic := by decide

/-- … and it highlights the wrong characters without panicking when the offsets happen to
fall on boundaries (`éé\x`, token `\x` at character 2 = byte 4). -/
example : highlightOld ['é', 'é', '\\', 'x'] 2 2 = .parts ['é'] ['é'] ['\\', 'x'] := by decide

/-- What was right about the old code: on lines of one-byte characters it computes the same
excerpt as the repaired one. -/
theorem excerpt_old_ascii_partial (line : List Char) (hl : ∀ c ∈ line, u8len c = 1) (start len : Nat) :
    highlightOld line start len = highlight line start len := by
  by_cases h2 : start + len ≤ line.length
  · rw [excerpt_located line start len h2]
    unfold highlightOld
    rw [byteLen_ascii line hl, if_neg (by omega), splitAtByte_ascii line hl start (by omega)]
    simp only []
    rw [splitAtByte_ascii (line.drop start) (fun c hc => hl c (List.mem_of_mem_drop hc)) len (by simp; omega)]
    simp [List.drop_drop]
  · rw [excerpt_whole line start len (by omega)]
    unfold highlightOld
    rw [byteLen_ascii line hl, if_pos (by omega)]

example : ∀ c ∈ ['a', '\\', 'x', ' '], u8len c = 1 := by decide

/-! ## `Tracer::trace` -/

/-- For every content and every character offset (also beyond the end: the key of an appended
end-of-line character), `trace` neither underflows `char_offset - char_line_start` nor slices
the content off a character boundary. -/
theorem trace_total (content : List Char) (off : Nat) : trace content off ≠ .panic := by
  have inv := traceLoop_inv off content [] ⟨1, 0, 0⟩ (by simp) (by simp) (by simp [byteLen])
  simp only [List.length_nil, byteLen, List.nil_append] at inv
  obtain ⟨h1, h2, h3⟩ := inv
  unfold trace
  simp only []
  rw [if_neg (by omega), h3, splitAtByte_take content _ h2]
  simp

/-- Correctness of the location: a token at character `pos` of the line `lc` that follows the
complete lines `pre` (empty, or ending in a newline) is reported on line `1 + #newlines(pre)`,
at position `pos`, with the line content `lc` — for arbitrary (multi-byte) characters.
`pos = lc.length` is the line's own end (the key of the end-of-line character). -/
theorem trace_locates (pre lc suf : List Char) (pos : Nat)
    (hlc : ∀ c ∈ lc, c ≠ '\n') (hpre : pre = [] ∨ pre.getLast? = some '\n')
    (hsuf : suf = [] ∨ suf.head? = some '\n') (hpos : pos ≤ lc.length) :
    trace (pre ++ lc ++ suf) (pre.length + pos) = .ok (1 + pre.count '\n') pos lc :=
  trace_locates' pre lc suf pos hlc hpre hsuf hpos

/-- Location and excerpt together: the characters highlighted for a token of `len` characters
found at offset `pre.length + pos` are the characters `pos … pos+len` of its line. -/
theorem location_then_excerpt (pre lc suf : List Char) (pos len : Nat)
    (hlc : ∀ c ∈ lc, c ≠ '\n') (hpre : pre = [] ∨ pre.getLast? = some '\n')
    (hsuf : suf = [] ∨ suf.head? = some '\n') (hpos : pos + len ≤ lc.length) :
    ∃ ln, trace (pre ++ lc ++ suf) (pre.length + pos) = .ok ln pos lc ∧
      highlight lc pos len = .parts (lc.take pos) ((lc.drop pos).take len) (trimEnd (lc.drop (pos + len))) :=
  ⟨_, trace_locates pre lc suf pos hlc hpre hsuf (by omega), excerpt_located lc pos len hpos⟩

example : (∀ c ∈ ['é', '\\', 'x'], c ≠ '\n') ∧ (['a', 'é', '\n'].getLast? = some '\n') := by decide
example : trace ['a', 'é', '\n', 'é', '\\', 'x', '\n'] 4 = .ok 2 1 ['é', '\\', 'x'] := by decide
example : trace ['a', '\n'] 7 = .ok 2 5 [] := by decide

/-- `trace_end_of_input` slices the content at a character boundary, for every content. -/
theorem trace_eoi_total (content : List Char) : traceEoi content ≠ .panic := by
  obtain ⟨k, hk, h⟩ := eoiLoop_inv content [] (0, 0) (0, 0)
    ⟨0, by simp, by simp [byteLen]⟩ ⟨0, by simp, by simp [byteLen]⟩
  simp only [byteLen, List.nil_append] at h hk
  unfold traceEoi
  simp only []
  rw [h, splitAtByte_take content k hk]
  simp

example : traceEoi ['a', '\n', 'é', '{', ' ', '\n', ' ', '\n'] = .ok 2 2 ['é', '{'] := by decide

/-! ## Numeric kernels -/

/-- Integer → character: `ok` or a recoverable error, never a panic, for every integer. -/
theorem char_from_code_total (i : Int) : charFromCode i ≠ .panic := by
  unfold charFromCode
  split
  · simp
  · split <;> simp

/-- The value produced (also the recovered one) is a Unicode scalar value. -/
theorem char_from_code_scalar (i : Int) (c : Nat) (h : charFromCode i = .ok c ∨ charFromCode i = .err c) :
    c ≤ 0x10FFFF ∧ ¬(0xD800 ≤ c ∧ c ≤ 0xDFFF) := by
  unfold charFromCode fromU32 at h
  split at h
  · rcases h with h | h <;> simp at h <;> omega
  · split at h
    · rename_i hc
      split at hc
      · simp at hc
      · rcases h with h | h <;> simp at h <;> simp at hc <;> omega
    · rcases h with h | h <;> simp at h <;> omega

/-- A surrogate code is a recoverable error now … -/
example : charFromCode 55296 = .err 0 := by decide
example : charFromCode 233 = .ok 233 := by decide
/-- … and was a panic (`char::from_u32(..).unwrap()`): defect C09-a. -/
theorem charFromCodeOld_panics : charFromCodeOld 55296 = .panic := by decide

/-- `Uint<N>`: the value that is used as an index (accepted or recovered) is below `N`. -/
theorem uint_bound_total (N : Nat) (hN : 0 < N) (i : Int) :
    ∃ v, (uintBound N i = .ok v ∨ uintBound N i = .err v) ∧ v < N := by
  unfold uintBound
  split
  · exact ⟨0, by simp, hN⟩
  · exact ⟨i.toNat, by simp, by omega⟩

example : uintBound 32768 32768 = .err 0 := by decide
example : uintBound 32768 32767 = .ok 32767 := by decide

/-- The `\ifcase` counter stays a 32-bit integer and never moves away from zero (in particular
`-2^31` is never decremented). -/
theorem ifcase_counter_total (c : Int) (h : i32 c) :
    i32 (orStep c) ∧ (c < 0 → orStep c = c) ∧ (0 ≤ c → 0 ≤ orStep c) := by
  unfold orStep i32 at *
  split <;> omega

theorem ifcaseLoop_spec (k : Nat) : ∀ (c : Int) (j : Nat),
    ifcaseLoop c j k = if 0 < c ∧ c ≤ k then some (j + c.toNat) else none := by
  induction k with
  | zero =>
    intro c j
    simp only [ifcaseLoop]
    rw [if_neg (by omega)]
  | succ k ih =>
    intro c j
    simp only [ifcaseLoop]
    split
    · split
      · rw [if_pos (by omega)]; congr 1; omega
      · rw [ih]
        by_cases h : 0 < c - 1 ∧ c - 1 ≤ (k : Int)
        · rw [if_pos h, if_pos (by omega)]; congr 1; omega
        · rw [if_neg h, if_neg (by omega)]
    · rw [ih, if_neg (by omega), if_neg (by omega)]

/-- `\ifcase n` with `k` `\or`s selects branch `n` when `0 ≤ n ≤ k` and none otherwise. -/
theorem ifcase_select_spec (n : Int) (k : Nat) :
    ifcaseSelect n k = if 0 ≤ n ∧ n ≤ k then some n.toNat else none := by
  unfold ifcaseSelect
  split
  · rename_i h; subst h; simp
  · rw [ifcaseLoop_spec]
    by_cases h : 0 < n ∧ n ≤ (k : Int)
    · rw [if_pos h, if_pos (by omega)]; simp
    · rw [if_neg h, if_neg (by omega)]

/-! ## Numeric kernels shared with C06 (restated; proofs in `Props/C06.lean`) -/

/-- Integer constants in radix 8, 10, 16: always a value in `[-(2^31-1), 2^31-1]`. -/
theorem scan_int_total (neg : Bool) (radix : Int) (hr : radix = 10 ∨ radix = 8 ∨ radix = 16)
    (ds : List Nat) (hd : ∀ d ∈ ds, (d : Int) < radix) :
    -2147483647 ≤ (C06.scanInt neg radix ds).1 ∧ (C06.scanInt neg radix ds).1 ≤ 2147483647 :=
  C06.scan_int_total neg radix hr ds hd

/-- `scan_dimen` on every 32-bit head and unit (incl. the internal integer `-2^31`, C09-b, and
a fraction of an over-large internal unit, C09-c): a value within `±max_dimen`, never `panic`. -/
theorem scan_dimen_total (neg : Bool) (h : C06.Head) (u : C06.UnitSpec) (wf : h.WF32) :
    ∃ sc, C06.scanDimen neg h u = .ok sc ∧ -1073741823 ≤ sc.val ∧ sc.val ≤ 1073741823 :=
  C06.scan_dimen_total neg h u wf

theorem xn_over_d_total (x n d : Int) (hn : n ≤ 65536) (hd : 0 < d ∧ d ≤ 65536) :
    C06.xnOverD x n d ≠ .panic :=
  C06.xn_over_d_total x n d hn hd

theorem nx_plus_y_total (x n y : Int) : C06.nxPlusY x n y ≠ .panic :=
  C06.nx_plus_y_total x n y

/-- Register arithmetic (the proof-side counterpart of the "extreme register states" search): a
`\count` or `\dimen` register that holds a 32-bit value holds one after any program of
`\advance`, `\multiply`, `\divide` with any operands (also `-2^31 / -1`, `× 2^31-1`, …); the
model has no crash outcome. Restated from C06. -/
theorem register_arithmetic_total (ops : List C06.ArithOp) (a : Int) (ha : C06.inRange32 a) :
    C06.inRange32 (C06.runReg C06.stepInt a ops).1 ∧ C06.inRange32 (C06.runReg C06.stepDimen a ops).1 :=
  ⟨(C06.arith_program_invariant ops a ha).1, (C06.arith_program_invariant ops a ha).2.1⟩

/-- `\the` of any dimension (every integer, not only legal dimensions) prints. -/
theorem print_scaled_total (s : Int) : C06.printScaled s ≠ none :=
  C06.print_total s

/-! ## Deepening round: allocation bounds, input depth, relation between the modes -/

/-- Index-bound totality of `\newIntArray`: after *any* sequence of allocations (any sizes,
names re-allocated, in any order with the accesses) every read and write through `resolve`
indexes inside the flat storage — the run reports values, recoverable errors and fatal errors,
never the panic of `arrays[index]`. -/
theorem array_access_total (ops : List AOp) : AOut.panic ∉ runOps Alloc.empty ops :=
  runOps_no_panic ops Alloc.empty WF_empty

/-- … from any well-formed state (every recorded array inside the storage), and allocation and
writing keep the state well formed. -/
theorem array_access_total_wf (a : Alloc) (h : a.WF) (ops : List AOp) : AOut.panic ∉ runOps a ops :=
  runOps_no_panic ops a h

theorem alloc_preserves_wf (a : Alloc) (h : a.WF) (name len : Nat) : (newIntArray a name len).WF :=
  WF_new a h name len

-- non-vacuity: two arrays, an access at the last element and one past it
example : runOps Alloc.empty [.new 0 2, .new 1 3, .write 1 2 7, .read 1 2, .read 0 (-1), .read 1 3]
    = [.val 7, .recovered, .val 0, .fatal] := by decide
example : runOps Alloc.empty [.new 0 0, .read 0 (-1)] = [.recovered, .fatal] := by decide

/-- Mutant 29 of the sweep (`arrays.resize(len)` without the start offset) is refuted by the
model: the second allocation truncates the storage and an in-range access panics. -/
theorem newIntArrayBad_panics :
    runOpsWith newIntArrayBad true Alloc.empty [.new 0 2, .new 1 7, .read 1 6] = [.panic] := by decide

/-- Mutant 08 (`inner_index > array_len`): the index `len` itself is accepted. -/
theorem resolveNonStrict_panics :
    runOpsWith newIntArray false Alloc.empty [.new 0 0, .read 0 0] = [.panic] := by decide

/-- The input stack never grows beyond the limit: starting from the one source that
`VM::push_source` leaves on the stack, whatever `\input`s and source ends follow,
`num_current_sources()` stays ≤ 101 (the harness checks ≤ 105 on every run). -/
theorem input_depth_invariant (ops : List IOp) : ∀ d ∈ depths 1 ops, d + 1 ≤ 101 := by
  intro d hd
  have := depths_bounded ops 1 (by omega) d hd
  omega

/-- … and 100 nested `\input`s do end in the fatal error (the limit is effective). -/
example : endsFatal 1 (List.replicate 100 .input) = true ∧ endsFatal 1 (List.replicate 99 .input) = false := by
  decide

/-- Errorstop mode stops at the first recoverable error: whatever follows it is irrelevant. -/
theorem errorstop_first_recoverable (pre rest : List Ev) (hpre : ∀ e ∈ pre, e = .ok) :
    run .errorstop (pre ++ .recoverable :: rest) = .err := by
  unfold run
  rw [runLoop_ok_prefix pre _ hpre]
  simp [runLoop, step, vmError, hookContinues, toError, finish]

/-- In scroll, nonstop and batch mode the recoverable errors of a run do not influence its
result: it is the result of the same run with them removed (no mode switches). -/
theorem recovering_mode_skips_recoverable (m : Mode) (hm : m ≠ .errorstop) (evs : List Ev)
    (h : ∀ e ∈ evs, e.respects = true) (hno : ∀ e ∈ evs, ∀ m', e ≠ .setMode m') :
    run m evs = run m (evs.filter (· ≠ .recoverable)) := by
  rw [protocol_eq_spec m evs h,
    protocol_eq_spec m _ (fun e he => h e (List.mem_filter.mp he).1)]
  exact specRun_filter_recoverable m hm evs hno

example : run .scroll [.ok, .recoverable, .recoverable, .fatal] = run .scroll [.ok, .fatal] := by decide

/-- Why mutant m11 of the first self-test (`cases_left_to_skip >= 0` instead of `> 0`) cannot be
detected: the two loops compute the same branch for every counter value (a counter of 0 is
decremented to −1 and then never moves, exactly like a counter that is left at 0), and the
decrement still happens only for `c ≥ 0`, so it cannot overflow either. -/
theorem ifcase_ge_mutant_equivalent (c : Int) (j k : Nat) : ifcaseLoopGe c j k = ifcaseLoop c j k :=
  ifcaseLoopGe_eq k c j

/-! ## The gutter of rendered error blocks -/

/-- With a printer sized from the block's own line number, no line of the block underflows the
padding, for every line number: the header is indented by `digits − 1`, the empty `|` lines by
`digits`, and the source line (margin = the number) by 0 — so the `saturating_sub` of the code
never saturates and the three kinds of line put their separator in the same column. -/
theorem gutter_total (n : Nat) :
    headerPad n = some (digits n - 1) ∧ blankPad n = some (digits n) ∧ sourcePad n = some 0 := by
  have h := digits_pos n
  unfold headerPad blankPad sourcePad gutterPad printerWidth
  refine ⟨?_, ?_, ?_⟩
  · rw [if_pos (by omega), if_pos (by omega)]; first | (congr 1; omega) | congr 1
  · rw [if_pos (by omega), if_pos (by omega)]; first | (congr 1; omega) | congr 1
  · rw [if_pos (by omega), if_pos (by omega)]; first | (congr 1; omega) | congr 1

/-- The saturating computation of the code is the plain one (whenever the plain one is defined). -/
theorem gutter_never_saturates (width adj marginLen p : Nat) (h : gutterPad width adj marginLen = some p) :
    gutterPadSat width adj marginLen = p := by
  unfold gutterPad at h
  split at h
  · split at h
    · simp only [Option.some.injEq] at h; unfold gutterPadSat; omega
    · simp at h
  · simp at h

/-- A printer shared between blocks is safe exactly when the other block's line number has no
more digits than the one it was sized from … -/
theorem shared_gutter_iff (e c : Nat) : sharedSourcePad e c ≠ none ↔ digits c ≤ digits e := by
  unfold sharedSourcePad gutterPad printerWidth
  rw [if_pos (by omega)]
  constructor
  · intro h
    by_cases hc : digits c + 1 ≤ digits e + 1 - 0
    · omega
    · rw [if_neg hc] at h; exact absurd rfl h
  · intro h
    rw [if_pos (by omega)]
    simp

/-- … so the seeded change C09-r4-3 underflows for an error token on line 1 and a command on
line 10 ("attempt to subtract with overflow"). -/
theorem sharedGutter_underflows : sharedSourcePad 1 10 = none := by
  have h1 : digits 1 = 1 := by rw [digits]; simp
  have h10 : digits 10 = 2 := by rw [digits]; simp [h1]
  cases h : sharedSourcePad 1 10 with
  | none => rfl
  | some p =>
    have := (shared_gutter_iff 1 10).mp (by rw [h]; simp)
    omega

example : headerPad 7 = some 0 ∧ blankPad 7 = some 1 ∧ sourcePad 7 = some 0 := by
  have h7 : digits 7 = 1 := by rw [digits]; simp
  have := gutter_total 7
  rw [h7] at this
  exact this

end C09
