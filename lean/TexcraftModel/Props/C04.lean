import TexcraftModel.Lemmas.C04
import TexcraftModel.Lemmas.C04AlgoLoose
import TexcraftModel.Lemmas.C04AlgoBound2
import TexcraftModel.Lemmas.C04AlgoForce
import TexcraftModel.Lemmas.C04AlgoPasses

/-!
# C04 — property theorems (reference optimum, and the active-list algorithm)

`Feasible x s` / `total x s` are TeX's definition of a feasible break sequence and of its
total demerits (Model/C04.lean). The theorems say that the dynamic programme `dp` computes,
for every number of lines, exactly the least total over all feasible sequences — for every
list, every length, every parameter setting:

* `row_sound`, `row_optimal`   the invariant of the rows (by induction on the number of lines)
* `dp_sound`      `dp x L = some d` is attained by a feasible sequence of `L` lines
* `dp_optimal`    no feasible sequence of `L` lines has a smaller total
* `dp_none`       `dp x L = none` iff there is no feasible sequence of `L` lines
* `dpBest_sound`, `dpBest_optimal`, `dpBest_none_iff`   the same over all line counts:
                  "a solution exists iff …, and then no feasible sequence has smaller demerits"

The second part (end of the file) is about the implementation's algorithm: `C04.algo`
(Model/C04Algo.lean) is a clause-by-clause transcription of `break_line_single_attempt`
(active list, line classes, candidates, pruning threshold, break width), tied to the real code
by exact comparison, on every generated case, of the returned break lists (stream `algo`) and of
the active nodes created along the way (stream `trace`).

* `algo_active_sound`, `algo_sound`, `algo_total`   every active node records a feasible
                  sequence with its exact total; whatever `algo` returns (any looseness,
                  `force_solution = false`) is `Feasible` and its recorded total is the true one
* `algo_dominates`   under the quantifier's restriction (`monotone`), looseness 0 and totals below
                  `AWFUL_BAD`: no feasible sequence beats the answer (and an answer exists)
* `algo_none_iff`, `algo_optimal`, `algo_optimal_dec`   "returns breakpoints iff a feasible
                  sequence exists, and then its total is the optimum `dpBest`"
* `algo_totals_in_range`   every stored total is a feasible prefix's exact total and, inside
                  `demBound x < AWFUL_BAD`, strictly between `∓AWFUL_BAD` (fits `i32`)
* `algo_loose`, `algo_loose_none_iff`   looseness `q ≠ 0` (same restriction): an answer has exactly
                  `Lb + q` lines (`Lb` = least optimal line count, `BestCount`) and the least total among
                  the feasible sequences with that many lines; `none` iff nothing is feasible or no
                  feasible sequence has `Lb + q` lines

* `algo_force_always`   with `force_solution = true` the pass always returns breakpoints (no
                  hypothesis)

* `passes_always_answer`, `passes_answer_optimal`   the pass driver (`passesOf`, `algoPasses` =
                  `break_line` + `break_line_all_attempts`): some pass always answers; the answer is
                  that of the first pass that has one, optimal for that pass's list and parameters,
                  and the earlier passes had no feasible sequence

**What the theorems do not say**: (1) the transcription works in `Int`, the real code in `i32`
(agreement is checked per run inside `demBound x < AWFUL_BAD`; no theorem excludes overflow).
(2) `force_solution = true` (artificial demerits; then "as far as feasible" of TeX.2021.875) is
transcribed and compared per run; the only theorem about it is `algo_force_always` (the property
is about `force_solution = false`). (3) The tie to the Rust code is the exact per-run comparison, not
an extraction.
-/
namespace C04

/-- Every entry of row `L` is the cost of some sequence of `L` feasible lines ending there. -/
theorem row_sound (x : Inst) (L : Nat) (pos : Option Nat) (f : Fit) (c : Int)
    (h : lookup (row x L) pos f = some c) :
    ∃ s, s.length = L ∧ run x {} s = some (c, ⟨pos, L, f⟩) := by
  induction L generalizing pos f c with
  | zero =>
    obtain ⟨rfl, rfl, rfl⟩ := lookup_row0 x pos f c h
    exact ⟨[], rfl, rfl⟩
  | succ L ih =>
    by_cases hp : posIdx pos ≤ x.n + 1
    · rw [lookup_row_succ x L pos f hp] at h
      cases pos with
      | none => rw [cell_none] at h; cases h
      | some b =>
        cases hbi : breakInfo x b with
        | none => rw [cell_illegal x _ L b f hbi] at h; cases h
        | some bi =>
        rw [cell_some x _ L b f (by simp [hbi])] at h
        have hm := minOpt_some h
        simp only [List.mem_flatMap, List.mem_map] at hm
        obtain ⟨prev, _, f', _, hc⟩ := hm
        unfold cand at hc
        cases hl : lookup (row x L) prev f' with
        | none => simp [hl] at hc
        | some c0 =>
          simp only [hl] at hc
          cases he : lineEval x prev L b with
          | none => simp [he] at hc
          | some r =>
            obtain ⟨bad, fit⟩ := r
            simp only [he] at hc
            split at hc
            · rename_i hfit
              subst hfit
              simp only [Option.some.injEq] at hc
              obtain ⟨s, hs, hrun⟩ := ih prev f' c0 hl
              refine ⟨s ++ [b], by simp [hs], ?_⟩
              rw [run_append_one, hrun]
              simp only [he, hc]
            · cases hc
    · rw [lookup_row_succ_oob x L pos f hp] at h; cases h

private theorem snoc_cases {α : Type} (l : List α) : l = [] ∨ ∃ t b, l = t ++ [b] := by
  induction l with
  | nil => exact Or.inl rfl
  | cons a t ih =>
    refine Or.inr ?_
    rcases ih with rfl | ⟨t', b, rfl⟩
    · exact ⟨[], a, rfl⟩
    · exact ⟨a :: t', b, rfl⟩

/-- Every sequence of feasible lines is matched or beaten by the row entry for its end state. -/
theorem row_optimal (x : Inst) (s : List Nat) (c : Int) (st : St)
    (h : run x {} s = some (c, st)) :
    ∃ c', c' ≤ c ∧ lookup (row x s.length) st.pos st.fit = some c' := by
  generalize hn : s.length = n
  induction n generalizing s c st with
  | zero =>
    have : s = [] := List.eq_nil_of_length_eq_zero hn
    subst this
    simp only [run, Option.some.injEq, Prod.mk.injEq] at h
    obtain ⟨rfl, rfl⟩ := h
    exact ⟨0, Int.le_refl _, by simpa [row] using lookup_row0_init x⟩
  | succ n ih =>
    rcases snoc_cases s with rfl | ⟨s, b, rfl⟩
    · simp at hn
    have hn' : s.length = n := by simpa using hn
    have ih := fun c st h => ih s c st h hn'
    subst hn'
    rw [run_append_one] at h
    cases hr : run x {} s with
    | none => simp [hr] at h
    | some q =>
      obtain ⟨c0, st0⟩ := q
      simp only [hr] at h
      cases he : lineEval x st0.pos st0.L b with
      | none => simp [he] at h
      | some r =>
        obtain ⟨bad, fit⟩ := r
        simp only [he, Option.some.injEq, Prod.mk.injEq] at h
        obtain ⟨rfl, rfl⟩ := h
        obtain ⟨c1, hle, hl⟩ := ih c0 st0 hr
        have hL : st0.L = s.length := by have := run_L hr; simpa using this
        have hb := lineEval_some he
        have hp : posIdx (some b) ≤ x.n + 1 := by simp [posIdx]; omega
        rw [lookup_row_succ x s.length (some b) fit hp, cell_some x _ _ b fit (lineEval_break he)]
        have hmem : some (c1 + demerits x st0.pos st0.fit b bad fit) ∈
            ((preds b).flatMap fun prev => Fit.all.map fun f' => cand x (row x s.length) s.length prev f' b fit) := by
          simp only [List.mem_flatMap, List.mem_map]
          refine ⟨st0.pos, mem_preds hb.1, st0.fit, Fit.mem_all _, ?_⟩
          unfold cand
          rw [hl]
          simp only
          rw [← hL, he]
          simp
        obtain ⟨c2, hc2, hle2⟩ := minOpt_le hmem
        exact ⟨c2, by omega, hc2⟩

/-! ## Per line count -/

/-- `dp x L = some d`: some feasible sequence of exactly `L` lines has total `d`. -/
theorem dp_sound (x : Inst) (L : Nat) (d : Int) (h : dp x L = some d) :
    ∃ s, s.length = L ∧ total x s = some d := by
  unfold dp dpOf at h
  have hm := minOpt_some h
  simp only [List.mem_map] at hm
  obtain ⟨f, _, hf⟩ := hm
  obtain ⟨s, hs, hrun⟩ := row_sound x L (some x.n) f d hf
  exact ⟨s, hs, by simp [total, hrun]⟩

/-- No feasible sequence of `L` lines has a smaller total than `dp x L`. -/
theorem dp_optimal (x : Inst) (s : List Nat) (d : Int) (h : total x s = some d) :
    ∃ d', dp x s.length = some d' ∧ d' ≤ d := by
  unfold total at h
  cases hr : run x {} s with
  | none => simp [hr] at h
  | some q =>
    obtain ⟨c, st⟩ := q
    simp only [hr] at h
    split at h
    · rename_i hpos
      cases h
      obtain ⟨c', hle, hl⟩ := row_optimal x s d st hr
      rw [hpos] at hl
      have hmem : some c' ∈ Fit.all.map fun f => lookup (row x s.length) (some x.n) f := by
        simp only [List.mem_map]; exact ⟨st.fit, Fit.mem_all _, hl⟩
      obtain ⟨c2, hc2, hle2⟩ := minOpt_le hmem
      exact ⟨c2, by simpa [dp, dpOf] using hc2, by omega⟩
    · cases h

/-- `dp x L = none` exactly when no sequence of `L` lines is feasible. -/
theorem dp_none (x : Inst) (L : Nat) : dp x L = none ↔ ∀ s, s.length = L → ¬ Feasible x s := by
  constructor
  · intro h s hs hf
    unfold Feasible at hf
    cases ht : total x s with
    | none => simp [ht] at hf
    | some d =>
      obtain ⟨d', hd, _⟩ := dp_optimal x s d ht
      rw [hs, h] at hd; cases hd
  · intro h
    cases hd : dp x L with
    | none => rfl
    | some d =>
      obtain ⟨s, hs, ht⟩ := dp_sound x L d hd
      exact absurd (by simp [Feasible, ht]) (h s hs)

/-! ## Over all line counts -/

/-- A feasible sequence is strictly increasing and bounded by `n`, so it has at most `n+1` lines. -/
theorem run_bound {x : Inst} {st st' : St} {s : List Nat} {c : Int} (h : run x st s = some (c, st')) :
    posIdx st.pos + s.length ≤ posIdx st'.pos := by
  induction s generalizing st c with
  | nil => simp [run] at h; rw [← h.2]; simp
  | cons a t ih =>
    simp only [run] at h
    split at h
    · cases h
    · rename_i bad fit hl
      split at h
      · cases h
      · rename_i c2 st2 hr
        cases h
        have h1 := (lineEval_some hl).1
        have := ih hr
        simp only [posIdx, List.length_cons] at this ⊢
        cases hp : st.pos with
        | none => simp [posIdx]; omega
        | some a0 =>
          rw [hp] at h1
          have : a0 < a := by simpa [lt?] using h1
          simp [posIdx]; omega

theorem feasible_length_le (x : Inst) (s : List Nat) (h : Feasible x s) : s.length ≤ x.n + 1 := by
  unfold Feasible total at h
  cases hr : run x {} s with
  | none => simp [hr] at h
  | some q =>
    obtain ⟨c, st⟩ := q
    simp only [hr] at h
    split at h
    · rename_i hpos
      have := run_bound hr
      rw [hpos] at this
      simp [posIdx] at this
      omega
    · simp at h

/-- **Soundness**: the reported optimum is attained by a feasible sequence. -/
theorem dpBest_sound (x : Inst) (d : Int) (h : dpBest x = some d) :
    ∃ s, Feasible x s ∧ total x s = some d := by
  unfold dpBest dpAll at h
  have hm := minOpt_some h
  simp only [List.mem_map] at hm
  obtain ⟨L, _, hL⟩ := hm
  obtain ⟨s, _, ht⟩ := dp_sound x L d hL
  exact ⟨s, by simp [Feasible, ht], ht⟩

/-- **Optimality**: no feasible sequence has smaller total demerits. -/
theorem dpBest_optimal (x : Inst) (s : List Nat) (d : Int) (h : total x s = some d) :
    ∃ d', dpBest x = some d' ∧ d' ≤ d := by
  obtain ⟨d1, hd1, hle⟩ := dp_optimal x s d h
  have hlen := feasible_length_le x s (by simp [Feasible, h])
  have hmem : some d1 ∈ dpAll x := by
    unfold dpAll
    simp only [List.mem_map, List.mem_range]
    exact ⟨s.length, by omega, hd1⟩
  obtain ⟨d2, hd2, hle2⟩ := minOpt_le hmem
  exact ⟨d2, hd2, by omega⟩

/-- **Existence**: the optimiser returns nothing iff no sequence of legal breakpoints keeps
every line's badness within the tolerance. -/
theorem dpBest_none_iff (x : Inst) : dpBest x = none ↔ ∀ s, ¬ Feasible x s := by
  constructor
  · intro h s hf
    unfold Feasible at hf
    cases ht : total x s with
    | none => simp [ht] at hf
    | some d =>
      obtain ⟨d', hd, _⟩ := dpBest_optimal x s d ht
      rw [h] at hd; cases hd
  · intro h
    cases hd : dpBest x with
    | none => rfl
    | some d =>
      obtain ⟨s, hf, _⟩ := dpBest_sound x d hd
      exact absurd hf (h s)

/-- The row-by-row evaluation used by the driver computes the same vector. -/
theorem dpAllFast_eq (x : Inst) : dpAllFast x = dpAll x := by
  have key : ∀ k L, dpFrom x (row x L) L k = (List.range' L k).map (dp x) := by
    intro k
    induction k with
    | zero => intro L; simp [dpFrom]
    | succ k ih =>
      intro L
      have : nextRow x (row x L) L = row x (L + 1) := rfl
      simp only [dpFrom, this, ih (L + 1), List.range'_succ, List.map_cons, dp]
  unfold dpAllFast dpAll
  have := key (x.n + 2) 0
  have h0 : row x 0 = row0 x := rfl
  rw [h0] at this
  simpa [List.range_eq_range'] using this

/-! ## Non-vacuity: a concrete paragraph with a feasible and an infeasible reading -/

/-- `box glue box glue box` + `penalty10000 parfillskip`, line width 25: breaking at the
second glue is feasible, the optimum has two lines. -/
def ex1 : Inst :=
  { items := [.box 10, .glue ⟨5, 3, 0, 2⟩, .box 10, .glue ⟨5, 3, 0, 2⟩, .box 10,
              .penalty 10000, .glue ⟨0, 65536, 1, 0⟩],
    p := { widths := [25], tolerance := 200 } }

example : total ex1 [3, 7] = some 200 := by decide
example : Feasible ex1 [3, 7] := by simp [Feasible]; decide
example : dpBest ex1 = some 200 := by decide
example : total ex1 [1, 7] = none := by decide        -- second line would be overfull
example : dp ex1 1 = none ∧ dp ex1 2 = some 200 := by decide

/-! ## The active-list algorithm (`C04.algo`, the transcription of `break_line_single_attempt`) -/

/-- **Soundness of the active list** (Stage B): after the main loop every active node records a
complete feasible sequence of breaks, and the total it carries is that sequence's true total
demerits. Any looseness; `force_solution = false`; discretionaries well formed (`discOK`: the
replaced nodes exist and are boxes or kerns, TeX.2021.869). -/
theorem algo_active_sound (x : Inst) (q : Int) (hd : discOK x = true) (ν : ANode)
    (hν : ν ∈ (mainLoop x q false).active) : total x ν.path.reverse = some ν.total :=
  final_total ((mainLoop_inv hd q).nodes ν hν)

/-- What `algo` returns is the break sequence of an active node, with that node's total. -/
theorem algo_total (x : Inst) (q : Int) (hd : discOK x = true) (bs : List Nat)
    (h : algo x q false = some bs) :
    ∃ ν, ν ∈ (mainLoop x q false).active ∧ bs = ν.path.reverse ∧ total x bs = some ν.total := by
  obtain ⟨ν, hν, hbs⟩ := finish_mem q _ bs h
  exact ⟨ν, hν, hbs, by rw [hbs]; exact algo_active_sound x q hd ν hν⟩

/-- **Soundness**: whatever the algorithm returns is a feasible break sequence (for every
looseness). -/
theorem algo_sound (x : Inst) (q : Int) (hd : discOK x = true) (bs : List Nat)
    (h : algo x q false = some bs) : Feasible x bs := by
  obtain ⟨ν, _, _, ht⟩ := algo_total x q hd bs h
  simp [Feasible, ht]

/-- **Domination** (Stage C): if overfull lines are upward closed (`monotone`, the quantifier's
restriction), looseness is 0 and feasible totals stay below `AWFUL_BAD`, then for every feasible
sequence the algorithm returns an answer that is at least as good. -/
theorem algo_dominates (x : Inst) (hd : discOK x = true) (hm : monotone x = true)
    (hW : 0 < x.p.widths.length) (hB : PrefixBounded x) (s : List Nat) (d : Int)
    (h : total x s = some d) :
    ∃ bs d', algo x 0 false = some bs ∧ total x bs = some d' ∧ d' ≤ d := by
  obtain ⟨ν, hν, _, hle⟩ := final_dominated 0 hd hm hW hB s d h
  cases ha : algo x 0 false with
  | none =>
    have := finish_none_zero _ ha
    rw [this] at hν; cases hν
  | some bs =>
    obtain ⟨μ, hμ, hbs, hmin⟩ := finish_zero _ bs ha
    refine ⟨bs, μ.total, rfl, ?_, Int.le_trans (hmin ν hν) hle⟩
    rw [hbs]; exact algo_active_sound x 0 hd μ hμ

/-- **Existence**: the algorithm returns nothing iff no sequence of legal breakpoints keeps every
line within the tolerance. -/
theorem algo_none_iff (x : Inst) (hd : discOK x = true) (hm : monotone x = true)
    (hW : 0 < x.p.widths.length) (hB : PrefixBounded x) :
    algo x 0 false = none ↔ ∀ s, ¬ Feasible x s := by
  constructor
  · intro hn s hf
    unfold Feasible at hf
    cases ht : total x s with
    | none => simp [ht] at hf
    | some d =>
      obtain ⟨bs, _, hbs, _⟩ := algo_dominates x hd hm hW hB s d ht
      rw [hn] at hbs; cases hbs
  · intro hno
    cases ha : algo x 0 false with
    | none => rfl
    | some bs => exact absurd (algo_sound x 0 hd bs ha) (hno bs)

/-- **C04 for the algorithm**: it finds a solution iff one exists, and the solution's total
demerits are the optimum (`dpBest`, proved least over all feasible sequences above). -/
theorem algo_optimal (x : Inst) (hd : discOK x = true) (hm : monotone x = true)
    (hW : 0 < x.p.widths.length) (hB : PrefixBounded x) :
    (algo x 0 false = none ↔ dpBest x = none) ∧
    (∀ bs, algo x 0 false = some bs → total x bs = dpBest x) := by
  refine ⟨?_, ?_⟩
  · rw [algo_none_iff x hd hm hW hB, dpBest_none_iff]
  · intro bs ha
    obtain ⟨ν, _, _, ht⟩ := algo_total x 0 hd bs ha
    obtain ⟨d', hd', hle⟩ := dpBest_optimal x bs ν.total ht
    obtain ⟨s, _, hs⟩ := dpBest_sound x d' hd'
    obtain ⟨bs2, d2, hbs2, ht2, hle2⟩ := algo_dominates x hd hm hW hB s d' hs
    rw [ha] at hbs2
    cases hbs2
    rw [ht] at ht2
    cases ht2
    rw [ht, hd']
    congr 1
    omega

/-- The same with the decidable bound the driver evaluates per instance
(`demBound x < AWFUL_BAD`, proved sufficient in `demBound_sound`). -/
theorem algo_optimal_dec (x : Inst) (hd : discOK x = true) (hm : monotone x = true)
    (hW : 0 < x.p.widths.length) (hB : demBound x < awfulBad) :
    (algo x 0 false = none ↔ dpBest x = none) ∧
    (∀ bs, algo x 0 false = some bs → total x bs = dpBest x) :=
  algo_optimal x hd hm hW (demBound_sound x hB)

/-- Every total an active node ever carries (after any number `k` of iterations of the main
loop) is the exact total of a feasible sequence of lines, and inside the decidable bound it
lies strictly between `−AWFUL_BAD` and `AWFUL_BAD`: the values the code keeps in `i32`
`total_demerits` fields fit (the transcription computes in `Int`). -/
theorem algo_totals_in_range (x : Inst) (q : Int) (hd : discOK x = true)
    (hb : demBound x < awfulBad) (k : Nat) (hk : k ≤ x.n + 1) (ν : ANode)
    (hν : ν ∈ ((List.range k).foldl (step x q false) {}).active) :
    run x {} ν.path.reverse = some (ν.total, ⟨ν.pos, ν.line, ν.fit⟩) ∧
      -awfulBad < ν.total ∧ ν.total < awfulBad := by
  have h := ((loop_inv hd q k hk).nodes ν hν).ok.run
  exact ⟨h, demBound_sound_lower x hb _ _ _ h, demBound_sound x hb _ _ _ h⟩

/-! ### Looseness ≠ 0 (TeX.2021.875), `force_solution = false` -/

/-- `Lb` is the least number of lines with which the overall optimum `d` is reached (the line
count of the first active node of least demerits, which the looseness is counted from). -/
def BestCount (x : Inst) (Lb : Nat) (d : Int) : Prop :=
  dpBest x = some d ∧ dp x Lb = some d ∧ ∀ L, L < Lb → dp x L ≠ some d

theorem BestCount_unique {x : Inst} {L1 L2 : Nat} {d1 d2 : Int} (h1 : BestCount x L1 d1)
    (h2 : BestCount x L2 d2) : L1 = L2 ∧ d1 = d2 := by
  have hd : d1 = d2 := by have := h1.1.symm.trans h2.1; simpa using this
  subst hd
  refine ⟨?_, rfl⟩
  rcases Nat.lt_trichotomy L1 L2 with h | h | h
  · exact absurd h1.2.1 (h2.2.2 L1 h)
  · exact h
  · exact absurd h2.2.1 (h1.2.2 L2 h)

/-- Every final active node is at least as expensive as the optimum for its number of lines. -/
private theorem act_dp_le {x : Inst} {act : List ANode}
    (h1 : ∀ ν, ν ∈ act → total x ν.path.reverse = some ν.total ∧ ν.path.reverse.length = ν.line)
    {ν : ANode} (hν : ν ∈ act) : ∃ d', dp x ν.line = some d' ∧ d' ≤ ν.total := by
  obtain ⟨ht, hl⟩ := h1 ν hν
  have := dp_optimal x ν.path.reverse ν.total ht
  rwa [hl] at this

/-- Every per-line-count optimum is realised exactly by a final active node. -/
private theorem dp_act {x : Inst} {act : List ANode}
    (h1 : ∀ ν, ν ∈ act → total x ν.path.reverse = some ν.total ∧ ν.path.reverse.length = ν.line)
    (h2 : ∀ s d, total x s = some d → ∃ ν, ν ∈ act ∧ ν.line = s.length ∧ ν.total ≤ d)
    {L : Nat} {d : Int} (h : dp x L = some d) : ∃ ν, ν ∈ act ∧ ν.line = L ∧ ν.total = d := by
  obtain ⟨s, hs, ht⟩ := dp_sound x L d h
  obtain ⟨ν, hν, hl, hle⟩ := h2 s d ht
  obtain ⟨d', hd', hle'⟩ := act_dp_le h1 hν
  rw [hl, hs, h] at hd'
  simp only [Option.some.injEq] at hd'
  exact ⟨ν, hν, by omega, by omega⟩

/-- **C04 with looseness, for the algorithm** (`q ≠ 0`, `force_solution = false`, the quantifier's
restriction and totals below `AWFUL_BAD`). Let `Lb` be the least number of lines reaching the
overall optimum. If the pass returns breakpoints, they form a feasible sequence of exactly
`Lb + q` lines whose total demerits are least among all feasible sequences with that many lines;
if it returns `None`, there is no feasible sequence at all or none with exactly `Lb + q` lines
(TeX then tries the next pass, TeX.2021.873). -/
theorem algo_loose (x : Inst) (q : Int) (hq : q ≠ 0) (hd : discOK x = true)
    (hm : monotone x = true) (hW : 0 < x.p.widths.length) (hB : PrefixBounded x) :
    (∀ bs, algo x q false = some bs →
      ∃ Lb d, BestCount x Lb d ∧ (bs.length : Int) = (Lb : Int) + q ∧
        (total x bs).isSome = true ∧ total x bs = dp x bs.length) ∧
    (algo x q false = none →
      dpBest x = none ∨
      ∃ Lb d, BestCount x Lb d ∧ ∀ L : Nat, (L : Int) = (Lb : Int) + q → dp x L = none) := by
  obtain ⟨h1, h2, h3⟩ := final_facts x q hq hd hm hW hB
  unfold algo
  generalize (mainLoop x q false).active = act at h1 h2 h3
  cases act with
  | nil =>
    refine ⟨fun bs h => by simp [finish] at h, fun _ => Or.inl ?_⟩
    cases hb : dpBest x with
    | none => rfl
    | some d =>
      obtain ⟨s, _, hs⟩ := dpBest_sound x d hb
      obtain ⟨ν, hν, _⟩ := h2 s d hs
      cases hν
  | cons first t =>
    obtain ⟨l1, l2, hsplit, hl1, hmin⟩ := firstBest_split first t
    generalize hb0 : firstBest first (first :: t) = best0 at hsplit hl1 hmin
    have hbm : best0 ∈ first :: t := by rw [hsplit]; simp
    -- the first node of least demerits sits at the least optimal line count
    have hbc : BestCount x best0.line best0.total := by
      obtain ⟨d', hd', hle'⟩ := act_dp_le h1 hbm
      obtain ⟨μ, hμ, _, hμt⟩ := dp_act h1 h2 hd'
      have hd'' : d' = best0.total := by have := hmin μ hμ; omega
      subst hd''
      refine ⟨?_, hd', ?_⟩
      · obtain ⟨d2, hd2, hle2⟩ := dpBest_optimal x best0.path.reverse best0.total (h1 best0 hbm).1
        obtain ⟨s, _, hs⟩ := dpBest_sound x d2 hd2
        obtain ⟨ν, hν, _, hνle⟩ := h2 s d2 hs
        have := hmin ν hν
        rw [hd2]; congr 1; omega
      · intro L hL hdp
        obtain ⟨μ, hμ, hμl, hμt⟩ := dp_act h1 h2 hdp
        rw [hsplit] at hμ h3
        rcases List.mem_append.mp hμ with hin | hin
        · have := hl1 μ hin; omega
        · rw [List.pairwise_append] at h3
          have hp := h3.2.1
          rw [List.pairwise_cons] at hp
          rcases List.mem_cons.mp hin with rfl | hin2
          · omega
          · have := hp.1 μ hin2; omega
    obtain ⟨hrm, hrD, hriff, hrmin⟩ := loosen_spec q hq best0 (first :: t) hbm
    rw [finish_loose q hq, hb0]
    refine ⟨?_, ?_⟩
    · intro bs hbs
      split at hbs
      · cases hbs
      · rename_i hr2
        have hr2' : (loosen q best0 (first :: t)).2 = q := by
          simpa using hr2
        simp only [Option.some.injEq] at hbs
        obtain ⟨ht, hlen⟩ := h1 _ hrm
        refine ⟨best0.line, best0.total, hbc, ?_, ?_, ?_⟩
        · rw [← hbs, hlen]; omega
        · rw [← hbs, ht]; rfl
        · rw [← hbs, ht, hlen]
          obtain ⟨d', hd', hle'⟩ := act_dp_le h1 hrm
          obtain ⟨μ, hμ, hμl, hμt⟩ := dp_act h1 h2 hd'
          have := hrmin hr2' μ hμ (by rw [hμl]; omega)
          rw [hd']; congr 1; omega
    · intro hnone
      split at hnone
      · rename_i hr2
        right
        refine ⟨best0.line, best0.total, hbc, ?_⟩
        intro L hL
        cases hdp : dp x L with
        | none => rfl
        | some d =>
          exfalso
          obtain ⟨μ, hμ, hμl, _⟩ := dp_act h1 h2 hdp
          exact hr2 (hriff.mpr ⟨μ, hμ, by rw [hμl]; omega⟩)
      · cases hnone

/-- The `None` case of `algo_loose` as an equivalence. -/
theorem algo_loose_none_iff (x : Inst) (q : Int) (hq : q ≠ 0) (hd : discOK x = true)
    (hm : monotone x = true) (hW : 0 < x.p.widths.length) (hB : PrefixBounded x) :
    algo x q false = none ↔
      (dpBest x = none ∨
       ∃ Lb d, BestCount x Lb d ∧ ∀ L : Nat, (L : Int) = (Lb : Int) + q → dp x L = none) := by
  obtain ⟨hsome, hnone⟩ := algo_loose x q hq hd hm hW hB
  refine ⟨hnone, ?_⟩
  intro h
  cases ha : algo x q false with
  | none => rfl
  | some bs =>
    exfalso
    obtain ⟨Lb, d, hbc, hlen, hfe, htot⟩ := hsome bs ha
    rcases h with h | ⟨Lb', d', hbc', hno⟩
    · rw [hbc.1] at h; cases h
    · obtain ⟨hL, _⟩ := BestCount_unique hbc hbc'
      subst hL
      rw [hno bs.length hlen] at htot
      rw [htot] at hfe
      cases hfe

/-! ### `force_solution = true` -/

/-- The final (forced) pass always returns breakpoints — for every list, looseness and parameter
setting, without any hypothesis: the active list never becomes empty (TeX.2021.854: artificial
demerits keep the last node alive), so the `.expect("force_solution=true")` of
`break_line_all_attempts` (lib.rs:489) cannot fail. -/
theorem algo_force_always (x : Inst) (q : Int) : (algo x q true).isSome = true :=
  algo_force_some x q

/-! ### The pass driver (`break_line` / `break_line_all_attempts`) -/

/-- Some pass always answers: the last pass of `break_line_all_attempts` is forced, and a forced
pass never returns `None` (`algo_force_always`), so the final `.expect("force_solution=true")`
(lib.rs:489) cannot fail — for every list, parameters, looseness and hyphenator. -/
theorem passes_always_answer (x : Inst) (pretol : Int) (pf : Glue) (hyph : List Item → List Item)
    (q : Int) : (algoPasses q 1 (passesOf x pretol pf hyph)).isSome = true :=
  algoPasses_some_of_forced q 1 _ (passesOf_forced x pretol pf hyph)

/-- The instance of a pass lies inside the quantifier of `algo_optimal_dec`. -/
def PassHyp (y : Inst) : Prop :=
  discOK y = true ∧ monotone y = true ∧ 0 < y.p.widths.length ∧ demBound y < awfulBad

/-- **C04 for the pass driver** (looseness 0): the answer of `break_line_all_attempts` is the
answer of the first pass that has one. If that pass is not the forced one, its breakpoints are
demerit-optimal for that pass's own list and parameters (`\pretolerance` and the unhyphenated
list, or `\tolerance` and the hyphenated list), and every earlier pass had no feasible sequence at
all for its parameters — each under the quantifier's restriction for the instance of that pass. -/
theorem passes_answer_optimal (x : Inst) (pretol : Int) (pf : Glue) (hyph : List Item → List Item)
    (j : Nat) (bs : List Nat) (h : algoPasses 0 1 (passesOf x pretol pf hyph) = some (j, bs)) :
    ∃ i p, (passesOf x pretol pf hyph)[i]? = some p ∧ j = 1 + i ∧ algo p.x 0 p.force = some bs ∧
      (p.force = false → PassHyp p.x → total p.x bs = dpBest p.x) ∧
      ∀ i' p', i' < i → (passesOf x pretol pf hyph)[i']? = some p' → PassHyp p'.x →
        dpBest p'.x = none := by
  obtain ⟨i, p, hp, hj, hal, hprev⟩ := algoPasses_spec 0 1 _ j bs h
  refine ⟨i, p, hp, hj, hal, ?_, ?_⟩
  · intro hf ⟨hd, hm, hW, hB⟩
    rw [hf] at hal
    exact (algo_optimal_dec p.x hd hm hW hB).2 bs hal
  · intro i' p' hlt hp' ⟨hd, hm, hW, hB⟩
    have hnone := hprev i' p' hlt hp'
    cases hf : p'.force with
    | true =>
      rw [hf] at hnone
      have := algo_force_some p'.x 0
      rw [hnone] at this
      cases this
    | false =>
      rw [hf] at hnone
      exact (algo_optimal_dec p'.x hd hm hW hB).1.mp hnone

/-! Non-vacuity: the hypotheses hold on the concrete paragraph `ex1`, the algorithm answers,
and on an instance without any feasible sequence it answers `none`. -/

example : discOK ex1 = true ∧ monotone ex1 = true ∧ 0 < ex1.p.widths.length ∧ demBound ex1 < awfulBad := by
  decide
example : PrefixBounded ex1 := demBound_sound ex1 (by decide)
example : algo ex1 0 false = some [3, 7] := by decide
example : total ex1 [3, 7] = dpBest ex1 := by decide

/-- Tolerance 5 at line width 24: one box is too loose, two are too tight: nothing is feasible. -/
def ex2 : Inst := { ex1 with p := { widths := [24], tolerance := 5 } }
example : discOK ex2 = true ∧ monotone ex2 = true ∧ demBound ex2 < awfulBad := by decide
example : algo ex2 0 false = none ∧ dpBest ex2 = none := by decide
example : algo ex2 0 true = some [7] := by decide     -- the forced pass answers all the same

/-- A discretionary with replaced node and post-break material, two line widths. -/
def ex3 : Inst :=
  { items := [.box 10, .disc [2] [3] 1, .box 4, .box 6, .glue ⟨5, 3, 0, 2⟩, .box 10,
              .penalty 10000, .glue ⟨0, 65536, 1, 0⟩],
    p := { widths := [12, 25], tolerance := 10000 } }
example : discOK ex3 = true ∧ monotone ex3 = true ∧ demBound ex3 < awfulBad := by decide
example : (algo ex3 0 false).isSome = true ∧ (algo ex3 0 false).bind (total ex3) = dpBest ex3 := by decide

/-- The three passes on `box glue box glue box glue` at width 24: `\pretolerance` 5 fails, `\tolerance`
200 answers in the second pass (TeX.2021.816 appended the paragraph end itself). -/
def ex7 : Inst :=
  { items := [.box 10, .glue ⟨5, 3, 0, 2⟩, .box 10, .glue ⟨5, 3, 0, 2⟩, .box 10, .glue ⟨5, 3, 0, 2⟩],
    p := { widths := [24], tolerance := 200 } }
example : algoPasses 0 1 (passesOf ex7 5 ⟨0, 65536, 1, 0⟩ id) = some (2, [3, 7]) := by decide
example : (passesOf ex7 5 ⟨0, 65536, 1, 0⟩ id).all (fun p => decide (discOK p.x = true ∧ monotone p.x = true ∧
    0 < p.x.p.widths.length ∧ demBound p.x < awfulBad)) = true := by decide

/-- Finite stretch on the last line: two, three and four lines are feasible (optimum: two). -/
def ex4 : Inst :=
  { items := [.box 30, .glue ⟨5, 10, 0, 0⟩, .box 30, .glue ⟨5, 10, 0, 0⟩, .box 30, .glue ⟨5, 20, 0, 0⟩,
              .box 15, .penalty 10000, .glue ⟨0, 200, 0, 0⟩],
    p := { widths := [100], tolerance := 10000 } }
example : discOK ex4 = true ∧ monotone ex4 = true ∧ demBound ex4 < awfulBad := by decide
example : BestCount ex4 2 424 := by
  refine ⟨by decide, by decide, ?_⟩
  intro L hL
  have : L = 0 ∨ L = 1 := by omega
  rcases this with rfl | rfl <;> decide
example : algo ex4 1 false = some [1, 5, 9] ∧ total ex4 [1, 5, 9] = dp ex4 3 := by decide
example : algo ex4 (-1) false = none ∧ dp ex4 1 = none := by decide

/-! The hypotheses of `algo_optimal` cannot be dropped (the faithful model, like TeX, misses the
solution outside them): -/

/-- Not monotone: the line from the start to the penalty is overfull, the longer line to the end
is not (negative kern). The only active node is deactivated at the penalty. -/
def ex5 : Inst :=
  { items := [.box 50, .penalty 0, .kern false (-20), .box 5, .penalty 10000, .glue ⟨0, 65536, 1, 0⟩],
    p := { widths := [40], tolerance := 200 } }
example : monotone ex5 = false ∧ discOK ex5 = true ∧ demBound ex5 < awfulBad ∧
    algo ex5 0 false = none ∧ dpBest ex5 = some 100 := by decide

/-- Not bounded: `\finalhyphendemerits = 2^30` makes the only feasible sequence cost more than
`AWFUL_BAD`; the candidate is never recorded. -/
def ex6 : Inst :=
  { items := [.box 30, .disc [2] [] 0, .box 30, .penalty 10000, .glue ⟨0, 65536, 1, 0⟩],
    p := { widths := [40], tolerance := 10000, finalHyphenDemerits := 1073741824 } }
example : monotone ex6 = true ∧ discOK ex6 = true ∧ ¬ demBound ex6 < awfulBad ∧
    algo ex6 0 false = none ∧ dpBest ex6 = some 1173764424 := by decide

end C04
