import TexcraftModel.Lemmas.C04

/-!
# C04 — property theorems (reference optimum)

`Feasible x s` / `total x s` are TeX's definition of a feasible break sequence and of its
total demerits (Model/C04.lean). The theorems say that the dynamic programme `dp` computes,
for every number of lines, exactly the least total over all feasible sequences — for every
list, every length, every parameter setting:

* `row_sound`, `row_optimal`   the invariant of the rows (by induction on the number of lines)
* `dp_sound`      `dp x L = some d` is attained by a feasible sequence of `L` lines
* `dp_optimal`    no feasible sequence of `L` lines has a smaller total
* `dp_none`       `dp x L = none` iff there is no feasible sequence of `L` lines
* `dpBest_sound`, `dpBest_optimal`, `dpBest_none_iff`   the same over all line counts:
                  "a solution exists iff …, and then no feasible sequence has smaller demerits"

**Partial** (stated in DESIGN.md 5.5): these are theorems about the reference, not about the
active-list algorithm in `break_line_single_attempt`. The implementation is judged against
the reference on every run: its answer must be `Feasible` with `total = dpBest`
(resp. the looseness rule on `dp`), and `None` exactly when `dpBest = none`.
-/
namespace C04

/-- Every entry of row `L` is the cost of some sequence of `L` feasible lines ending there. -/
theorem row_sound (x : Inst) (L : Nat) (pos : Option Nat) (f : Fit) (c : Int)
    (h : lookup (row x L) pos f = some c) :
    ∃ s, s.length = L ∧ run x {} s = some (c, ⟨pos, L, f⟩) := by
  induction L generalizing pos f c with
  | zero =>
    obtain ⟨rfl, rfl, rfl⟩ := lookup_row0 x pos f c h
    exact ⟨[], rfl, rfl⟩
  | succ L ih =>
    by_cases hp : posIdx pos ≤ x.n + 1
    · rw [lookup_row_succ x L pos f hp] at h
      cases pos with
      | none => rw [cell_none] at h; cases h
      | some b =>
        cases hbi : breakInfo x b with
        | none => rw [cell_illegal x _ L b f hbi] at h; cases h
        | some bi =>
        rw [cell_some x _ L b f (by simp [hbi])] at h
        have hm := minOpt_some h
        simp only [List.mem_flatMap, List.mem_map] at hm
        obtain ⟨prev, _, f', _, hc⟩ := hm
        unfold cand at hc
        cases hl : lookup (row x L) prev f' with
        | none => simp [hl] at hc
        | some c0 =>
          simp only [hl] at hc
          cases he : lineEval x prev L b with
          | none => simp [he] at hc
          | some r =>
            obtain ⟨bad, fit⟩ := r
            simp only [he] at hc
            split at hc
            · rename_i hfit
              subst hfit
              simp only [Option.some.injEq] at hc
              obtain ⟨s, hs, hrun⟩ := ih prev f' c0 hl
              refine ⟨s ++ [b], by simp [hs], ?_⟩
              rw [run_append_one, hrun]
              simp only [he, hc]
            · cases hc
    · rw [lookup_row_succ_oob x L pos f hp] at h; cases h

private theorem snoc_cases {α : Type} (l : List α) : l = [] ∨ ∃ t b, l = t ++ [b] := by
  induction l with
  | nil => exact Or.inl rfl
  | cons a t ih =>
    refine Or.inr ?_
    rcases ih with rfl | ⟨t', b, rfl⟩
    · exact ⟨[], a, rfl⟩
    · exact ⟨a :: t', b, rfl⟩

/-- Every sequence of feasible lines is matched or beaten by the row entry for its end state. -/
theorem row_optimal (x : Inst) (s : List Nat) (c : Int) (st : St)
    (h : run x {} s = some (c, st)) :
    ∃ c', c' ≤ c ∧ lookup (row x s.length) st.pos st.fit = some c' := by
  generalize hn : s.length = n
  induction n generalizing s c st with
  | zero =>
    have : s = [] := List.eq_nil_of_length_eq_zero hn
    subst this
    simp only [run, Option.some.injEq, Prod.mk.injEq] at h
    obtain ⟨rfl, rfl⟩ := h
    exact ⟨0, Int.le_refl _, by simpa [row] using lookup_row0_init x⟩
  | succ n ih =>
    rcases snoc_cases s with rfl | ⟨s, b, rfl⟩
    · simp at hn
    have hn' : s.length = n := by simpa using hn
    have ih := fun c st h => ih s c st h hn'
    subst hn'
    rw [run_append_one] at h
    cases hr : run x {} s with
    | none => simp [hr] at h
    | some q =>
      obtain ⟨c0, st0⟩ := q
      simp only [hr] at h
      cases he : lineEval x st0.pos st0.L b with
      | none => simp [he] at h
      | some r =>
        obtain ⟨bad, fit⟩ := r
        simp only [he, Option.some.injEq, Prod.mk.injEq] at h
        obtain ⟨rfl, rfl⟩ := h
        obtain ⟨c1, hle, hl⟩ := ih c0 st0 hr
        have hL : st0.L = s.length := by have := run_L hr; simpa using this
        have hb := lineEval_some he
        have hp : posIdx (some b) ≤ x.n + 1 := by simp [posIdx]; omega
        rw [lookup_row_succ x s.length (some b) fit hp, cell_some x _ _ b fit (lineEval_break he)]
        have hmem : some (c1 + demerits x st0.pos st0.fit b bad fit) ∈
            ((preds b).flatMap fun prev => Fit.all.map fun f' => cand x (row x s.length) s.length prev f' b fit) := by
          simp only [List.mem_flatMap, List.mem_map]
          refine ⟨st0.pos, mem_preds hb.1, st0.fit, Fit.mem_all _, ?_⟩
          unfold cand
          rw [hl]
          simp only
          rw [← hL, he]
          simp
        obtain ⟨c2, hc2, hle2⟩ := minOpt_le hmem
        exact ⟨c2, by omega, hc2⟩

/-! ## Per line count -/

/-- `dp x L = some d`: some feasible sequence of exactly `L` lines has total `d`. -/
theorem dp_sound (x : Inst) (L : Nat) (d : Int) (h : dp x L = some d) :
    ∃ s, s.length = L ∧ total x s = some d := by
  unfold dp dpOf at h
  have hm := minOpt_some h
  simp only [List.mem_map] at hm
  obtain ⟨f, _, hf⟩ := hm
  obtain ⟨s, hs, hrun⟩ := row_sound x L (some x.n) f d hf
  exact ⟨s, hs, by simp [total, hrun]⟩

/-- No feasible sequence of `L` lines has a smaller total than `dp x L`. -/
theorem dp_optimal (x : Inst) (s : List Nat) (d : Int) (h : total x s = some d) :
    ∃ d', dp x s.length = some d' ∧ d' ≤ d := by
  unfold total at h
  cases hr : run x {} s with
  | none => simp [hr] at h
  | some q =>
    obtain ⟨c, st⟩ := q
    simp only [hr] at h
    split at h
    · rename_i hpos
      cases h
      obtain ⟨c', hle, hl⟩ := row_optimal x s d st hr
      rw [hpos] at hl
      have hmem : some c' ∈ Fit.all.map fun f => lookup (row x s.length) (some x.n) f := by
        simp only [List.mem_map]; exact ⟨st.fit, Fit.mem_all _, hl⟩
      obtain ⟨c2, hc2, hle2⟩ := minOpt_le hmem
      exact ⟨c2, by simpa [dp, dpOf] using hc2, by omega⟩
    · cases h

/-- `dp x L = none` exactly when no sequence of `L` lines is feasible. -/
theorem dp_none (x : Inst) (L : Nat) : dp x L = none ↔ ∀ s, s.length = L → ¬ Feasible x s := by
  constructor
  · intro h s hs hf
    unfold Feasible at hf
    cases ht : total x s with
    | none => simp [ht] at hf
    | some d =>
      obtain ⟨d', hd, _⟩ := dp_optimal x s d ht
      rw [hs, h] at hd; cases hd
  · intro h
    cases hd : dp x L with
    | none => rfl
    | some d =>
      obtain ⟨s, hs, ht⟩ := dp_sound x L d hd
      exact absurd (by simp [Feasible, ht]) (h s hs)

/-! ## Over all line counts -/

/-- A feasible sequence is strictly increasing and bounded by `n`, so it has at most `n+1` lines. -/
theorem run_bound {x : Inst} {st st' : St} {s : List Nat} {c : Int} (h : run x st s = some (c, st')) :
    posIdx st.pos + s.length ≤ posIdx st'.pos := by
  induction s generalizing st c with
  | nil => simp [run] at h; rw [← h.2]; simp
  | cons a t ih =>
    simp only [run] at h
    split at h
    · cases h
    · rename_i bad fit hl
      split at h
      · cases h
      · rename_i c2 st2 hr
        cases h
        have h1 := (lineEval_some hl).1
        have := ih hr
        simp only [posIdx, List.length_cons] at this ⊢
        cases hp : st.pos with
        | none => simp [posIdx]; omega
        | some a0 =>
          rw [hp] at h1
          have : a0 < a := by simpa [lt?] using h1
          simp [posIdx]; omega

theorem feasible_length_le (x : Inst) (s : List Nat) (h : Feasible x s) : s.length ≤ x.n + 1 := by
  unfold Feasible total at h
  cases hr : run x {} s with
  | none => simp [hr] at h
  | some q =>
    obtain ⟨c, st⟩ := q
    simp only [hr] at h
    split at h
    · rename_i hpos
      have := run_bound hr
      rw [hpos] at this
      simp [posIdx] at this
      omega
    · simp at h

/-- **Soundness**: the reported optimum is attained by a feasible sequence. -/
theorem dpBest_sound (x : Inst) (d : Int) (h : dpBest x = some d) :
    ∃ s, Feasible x s ∧ total x s = some d := by
  unfold dpBest dpAll at h
  have hm := minOpt_some h
  simp only [List.mem_map] at hm
  obtain ⟨L, _, hL⟩ := hm
  obtain ⟨s, _, ht⟩ := dp_sound x L d hL
  exact ⟨s, by simp [Feasible, ht], ht⟩

/-- **Optimality**: no feasible sequence has smaller total demerits. -/
theorem dpBest_optimal (x : Inst) (s : List Nat) (d : Int) (h : total x s = some d) :
    ∃ d', dpBest x = some d' ∧ d' ≤ d := by
  obtain ⟨d1, hd1, hle⟩ := dp_optimal x s d h
  have hlen := feasible_length_le x s (by simp [Feasible, h])
  have hmem : some d1 ∈ dpAll x := by
    unfold dpAll
    simp only [List.mem_map, List.mem_range]
    exact ⟨s.length, by omega, hd1⟩
  obtain ⟨d2, hd2, hle2⟩ := minOpt_le hmem
  exact ⟨d2, hd2, by omega⟩

/-- **Existence**: the optimiser returns nothing iff no sequence of legal breakpoints keeps
every line's badness within the tolerance. -/
theorem dpBest_none_iff (x : Inst) : dpBest x = none ↔ ∀ s, ¬ Feasible x s := by
  constructor
  · intro h s hf
    unfold Feasible at hf
    cases ht : total x s with
    | none => simp [ht] at hf
    | some d =>
      obtain ⟨d', hd, _⟩ := dpBest_optimal x s d ht
      rw [h] at hd; cases hd
  · intro h
    cases hd : dpBest x with
    | none => rfl
    | some d =>
      obtain ⟨s, hf, _⟩ := dpBest_sound x d hd
      exact absurd hf (h s)

/-- The row-by-row evaluation used by the driver computes the same vector. -/
theorem dpAllFast_eq (x : Inst) : dpAllFast x = dpAll x := by
  have key : ∀ k L, dpFrom x (row x L) L k = (List.range' L k).map (dp x) := by
    intro k
    induction k with
    | zero => intro L; simp [dpFrom]
    | succ k ih =>
      intro L
      have : nextRow x (row x L) L = row x (L + 1) := rfl
      simp only [dpFrom, this, ih (L + 1), List.range'_succ, List.map_cons, dp]
  unfold dpAllFast dpAll
  have := key (x.n + 2) 0
  have h0 : row x 0 = row0 x := rfl
  rw [h0] at this
  simpa [List.range_eq_range'] using this

/-! ## Non-vacuity: a concrete paragraph with a feasible and an infeasible reading -/

/-- `box glue box glue box` + `penalty10000 parfillskip`, line width 25: breaking at the
second glue is feasible, the optimum has two lines. -/
def ex1 : Inst :=
  { items := [.box 10, .glue ⟨5, 3, 0, 2⟩, .box 10, .glue ⟨5, 3, 0, 2⟩, .box 10,
              .penalty 10000, .glue ⟨0, 65536, 1, 0⟩],
    p := { widths := [25], tolerance := 200 } }

example : total ex1 [3, 7] = some 200 := by decide
example : Feasible ex1 [3, 7] := by simp [Feasible]; decide
example : dpBest ex1 = some 200 := by decide
example : total ex1 [1, 7] = none := by decide        -- second line would be overfull
example : dp ex1 1 = none ∧ dp ex1 2 = some 200 := by decide

end C04
