import TexcraftModel.Lemmas.C18
import TexcraftModel.Lemmas.C18Cst
import TexcraftModel.Lemmas.C18Build
import TexcraftModel.Lemmas.C18Scaled
import TexcraftModel.Lemmas.C18Text
import TexcraftModel.Lemmas.C18Format
import TexcraftModel.Lemmas.C18Loc
import TexcraftModel.Lemmas.C18Prepass

/-!
# C18 — the Box language: property theorems

Helper lemmas: `Lemmas/C18.lean` (text level), `Lemmas/C18Cst.lean` (tokens ⇄ CST),
`Lemmas/C18Build.lean` (CST ⇄ lists).

Leaf level (text ⇄ token values)
* `string_escape_roundtrip`   every string, whatever characters Rust prints raw
* `integer_text_roundtrip`    every integer in (-2^31, 2^31)
* `scaled_text_roundtrip`     every dimension with |s| < 2^30 sp   (given `ScaledRoundTrip`)
* `infinite_glue_text_roundtrip` every fil/fill/filll amount with |s| < 2^31
* `glue_order_keyword`, `glue_order_unit`

Text level
* `text_round_trip`, `text_round_trip_each`   printing an expressible list to *text* (the
                      printer's real layout) and parsing the text back gives the list
* `lexer_inverts_printer`  `lex (render cs) = tokens cs` for every printable CST
* `lex_total`, `lex_fuel_irrelevant`  the lexer model is total (fuel suffices)
* `prepass_closes_call`, `prepass_closes_list`, `prepass_skips_string`, `prepass_skips_comment`
                      the bracket pre-pass agrees with the printer's structure
* `comment_line_ignored`, `comment_between_calls`, `convert_round_trip`, `display_vbox_round_trip`
* `lex_error_located`, `lex_error_byte_range`  every lexer error carries a span that is a
                      valid character range of the source
* `format_text_idempotent`, `format_text_preserves_meaning`, `lexer_output_printable`
                      the format laws on text (texts without comments)

Token level
* `parse_print`       printing any expressible list (all 13 node kinds, nested, runs of
                      characters merged per font) and parsing the tokens back gives the list
* `parse_print_each`  the same for the per-element printer (`Display for ds::Horizontal`)
* `parse_print_normalize`, `normalize_id`  what printing forgets (`normList`), and that it
                      forgets nothing on expressible lists
* `parse_print_cst`   parsing a pretty-printed CST gives the CST back, with any continuation
* `format_idempotent`, `format_preserves_meaning`
-/
namespace C18

/-! ## Leaf level -/

/-- A string printed by cst.rs `Value::fmt` (quotes, `escape_debug` of every character) is read
back by the lexer as the same string, for **every** scalar value — including `"`, `\`,
control and non-ASCII characters — and whichever characters the printer leaves unescaped. -/
theorem string_escape_roundtrip (raw : Char → Bool) (s : Str) (rest : List Char) :
    scanStr .norm (escapeStr raw s ++ '"' :: rest) = .ok (s, rest) :=
  scanStr_escapeStr raw s rest

example : scanStr .norm (escapeStr (fun c => c.toNat ≥ 32 && c.toNat < 127)
    ['"', '\\', '\n', 'ä', '\x00', '\'', 'a'] ++ '"' :: [')']) =
    .ok (['"', '\\', '\n', 'ä', '\x00', '\'', 'a'], [')']) := string_escape_roundtrip _ _ _

/-- The double quote, which the quantifier of the property excludes, round-trips as well. -/
example : escapeStr (fun _ => true) ['"'] = ['\\', '"'] := by decide

/-- The same as a whole token: the printed string followed by any text lexes to the string
token followed by the tokens of that text. -/
theorem string_text_roundtrip (raw : Char → Bool) (s : Str) (rest : List Char) :
    lex (printStr raw s ++ rest) = (lex rest).cons (.str s) :=
  lex_str raw s rest

/-- `{}` of an `i32` other than `i32::MIN`, followed by anything that does not continue a
number, lexes to the same integer (and the lexer continues with the rest). -/
theorem integer_text_roundtrip (n : Int) (rest : List Char)
    (hn : -2147483647 ≤ n ∧ n ≤ 2147483647) (hr : Terminated rest) :
    lex (printInt n ++ rest) = (lex rest).cons (.int n) :=
  lex_int n rest hn hr

example : Terminated [')'] := ⟨by decide, by decide, by decide⟩

/-- `ScaledRoundTrip` is the decimal round trip of TeX §102/§103 on the 65 536 fraction values
(C06's theorem about `Scaled::display_no_units` / `from_decimal_digits`). Given it, every
dimension the language can express, printed by `Display for Scaled`, lexes to itself. -/
theorem scaled_text_roundtrip (H : ScaledRoundTrip) (s : Int) (rest : List Char)
    (hs : -1073741823 ≤ s ∧ s ≤ 1073741823) (hr : WordEnd rest) :
    lex (printScaled s ++ rest) = (lex rest).cons (.dim s) :=
  lex_dim H s rest hs hr

example : WordEnd [')'] := ⟨by decide, by decide⟩
example : WordEnd [',', ' '] := ⟨by decide, by decide⟩

/-- The same for an infinite glue component `<number>fil|fill|filll`, for every amount
other than `i32::MIN`. -/
theorem infinite_glue_text_roundtrip (H : ScaledRoundTrip) (s : Int) (o : InfOrder)
    (rest : List Char) (hs : -2147483647 ≤ s ∧ s ≤ 2147483647) (hr : WordEnd rest) :
    lex (printNoUnits s ++ (o.unit ++ rest)) = (lex rest).cons (.inf s o) :=
  lex_inf H s o rest hs hr

/-- `"normal" | "fil" | "fill" | "filll"` (the `glue_order` argument). -/
theorem glue_order_keyword (o : Order) : Order.ofKeyword o.keyword = some o :=
  Order.ofKeyword_keyword o

/-- `fil | fill | filll` as a unit. -/
theorem glue_order_unit (o : InfOrder) : InfOrder.ofUnit o.unit = some o :=
  InfOrder.ofUnit_unit o

/-! ## Token level: CST -/

/-- Parsing the tokens of a pretty-printed CST gives the CST back and leaves the continuation,
for every CST (every function name, argument shape and nesting). -/
theorem parse_print_cst (cs : List Call) (rest : List BTok) (f : Nat)
    (hf : (printCalls cs).length < f) (hr : NotCallStart rest) :
    parseCalls f (printCalls cs ++ rest) = some (cs, rest) :=
  parseCalls_print cs f rest hf hr

example : NotCallStart [.rbrack, .comma] := by simp [NotCallStart]

/-- `format(format(s)) = format(s)` on the token level (layout and comments are below this
level). -/
theorem format_idempotent (toks toks' : List BTok) (h : formatToks toks = some toks') :
    formatToks toks' = some toks' := by
  unfold formatToks at h ⊢
  cases hp : parseSource toks with
  | none => rw [hp] at h; cases h
  | some cs =>
    rw [hp] at h
    simp only [Option.map_some, Option.some.injEq] at h
    subst h
    rw [parseSource_printCalls]
    rfl

/-- Formatting does not change what the text parses to: same CST, hence the same list in
every list kind. -/
theorem format_preserves_meaning (toks toks' : List BTok) (h : formatToks toks = some toks')
    (m : Mode) : parseToks m toks' = parseToks m toks := by
  unfold formatToks at h
  cases hp : parseSource toks with
  | none => rw [hp] at h; cases h
  | some cs =>
    rw [hp] at h
    simp only [Option.map_some, Option.some.injEq] at h
    subst h
    unfold parseToks
    rw [parseSource_printCalls, hp]

example : formatToks [.kw ['k'], .lparen, .dim 5, .comma, .rparen] =
    some [.kw ['k'], .lparen, .dim 5, .rparen] := by decide

/-! ## Token level: lists -/

/-- **The round trip.** For every list the language can express (`exprList`: all node kinds,
glue of all orders, normal kerns, rules with running dimensions, ligatures, discretionaries,
nested boxes, insertions, marks, adjusts, math; any characters; dimensions up to TeX's
`max_dimen`), in every list kind, printing with the list printer and parsing the tokens back
gives the same list. `ScaledRoundTrip` is needed for one thing only: the glue ratio of an
hbox travels as decimal text inside a string token. -/
theorem parse_print (H : ScaledRoundTrip) (m : Mode) (l : List Node) (he : exprList m l = true) :
    parseToks m (printNodes m l) = some l := by
  unfold parseToks printNodes
  rw [parseSource_printCalls]
  have h := repr_list_of_expr m l he
  have := build_lower H m l h.1
  rw [h.2] at this
  exact this

/-- The same for the printer that boxworks-testing uses (one `Display` per element, no merging
of character runs across elements). -/
theorem parse_print_each (H : ScaledRoundTrip) (l : List Node) (he : exprList .H l = true) :
    parseToks .H (printCalls (lowerEach l)) = some l := by
  unfold parseToks
  rw [parseSource_printCalls]
  have h := repr_list_of_expr .H l he
  have := build_each H l _ (Nat.lt_succ_self _) h.1
  rw [h.2] at this
  exact this

/-- What exactly printing forgets. At the token level the round trip holds for every
well-moded list whose counters fit their types (`reprList`: no bound on dimensions, any kern
kind, glue kind, mark, vbox glue set) and gives `normList l`: kinds reset to normal, marks
emptied, the glue set of vboxes dropped, everything else — recursively — unchanged. -/
theorem parse_print_normalize (H : ScaledRoundTrip) (m : Mode) (l : List Node)
    (he : reprList m l = true) : parseToks m (printNodes m l) = some (normList l) := by
  unfold parseToks printNodes
  rw [parseSource_printCalls]
  exact build_lower H m l he

/-- On the lists the language can express nothing is forgotten. -/
theorem normalize_id (m : Mode) (l : List Node) (he : exprList m l = true) : normList l = l :=
  (repr_list_of_expr m l he).2

example : reprList .H [.kern 3 (2 ^ 31), .mark 5, .vbox 0 0 0 0 true [.glue 2 0 0 .normal 0 .normal]] = true := by
  decide
example : normList [.kern 3 (2 ^ 31), .mark 5, .vbox 0 0 0 0 true [.glue 2 0 0 .normal 0 .normal]] =
    [.kern 0 (2 ^ 31), .mark 0, .vbox 0 0 0 0 false [.glue 0 0 0 .normal 0 .normal]] := by rfl

/-- A non-trivial list meeting the hypothesis: merged character runs in two fonts (one above
`i32::MAX`), infinite glue, a running rule, a ligature, a discretionary, nested boxes, an
insertion, a mark, an adjust and math nodes. -/
example : exprList .H
    [.char 'a' 1, .char '"' 1, .char 'ä' 4294967295, .glue 0 65536 3 .fil (-5) .filll,
     .hbox 1 2 3 4 43000 .fill [.char 'x' 0, .kern 0 (-1073741823),
       .disc [.char '-' 0, .lig 'f' ['f', 'i'] 3 true false] [.rule running 5 6] 1],
     .vbox 0 0 0 0 false [.penalty (-10000), .mark 0, .ins 255 1 2 3 4 .normal 5 .fil 7 [.math true]],
     .adjust [.glue 0 0 2147483647 .fill 0 .normal], .math false] = true := by decide

/-! ## Boundaries: values the language cannot express (negation witnesses)

`exprList` excludes exactly these; each line shows that the restriction is needed. -/

/-- A dimension of 16384pt = 2^30 sp is printed (`16384.0pt`) but the lexer rejects it. -/
example : lexNumber ['1', '6', '3', '8', '4', '.', '0', 'p', 't'] false ['1', '6', '3', '8', '4', '.', '0', 'p', 't'] =
    .err (.numberOutOfRange (['1', '6', '3', '8', '4', '.', '0', 'p', 't'], [])) := by rfl
/-- `i32::MIN` is printed (`-2147483648`) but the lexer rejects it (integers are in (-2^31, 2^31)). -/
example : lexNumber ['-', '2', '1', '4', '7', '4', '8', '3', '6', '4', '8'] true ['2', '1', '4', '7', '4', '8', '3', '6', '4', '8'] =
    .err (.numberOutOfRange (['-', '2', '1', '4', '7', '4', '8', '3', '6', '4', '8'], [])) := by rfl
/-- A rule dimension of exactly -2^31 sp *is* "running" (there is no other way to write it). -/
example : runningVal (-2147483648) = .str ['r', 'u', 'n', 'n', 'i', 'n', 'g'] := by rfl
/-- Kern kinds, glue kinds, mark contents and the glue set of a vbox have no syntax. -/
example : lowerNode (.kern 1 5) = lowerNode (.kern 0 5) := rfl
example : lowerNode (.mark 2) = lowerNode (.mark 0) := rfl
example : lowerNode (.vbox 1 2 3 4 true []) = lowerNode (.vbox 1 2 3 4 false []) := rfl
/-- A font (or replace count, float penalty) of exactly 2^31 prints as `-2147483648`. -/
example : toI32 2147483648 = -2147483648 := by decide

/-! ## The full statement (text level), not proved

Composing the leaf theorems with `parse_print` into one statement about *text* needs a
rendering of token lists to characters and a proof that the lexer inverts it for every
token sequence and layout (whitespace, comments, commas, the bracket pre-pass). That part of
the real lexer is tied to the model by the correspondence check only. -/
def C18_full_statement : Prop :=
  ScaledRoundTrip → ∀ (render : List BTok → List Char), (∀ toks, lex (render toks) = .ok toks) →
    ∀ (m : Mode) (l : List Node), exprList m l = true →
      parseText m (render (printNodes m l)) = .ok l

/-- …which follows from `parse_print` for any renderer the lexer inverts. -/
theorem full_statement_of_lexer_inverse : C18_full_statement := by
  intro H render hr m l he
  unfold parseText
  rw [hr]
  simp only [parse_print H m l he]

/-! ## `ScaledRoundTrip` discharged

`Lemmas/C18Scaled.lean` derives the hypothesis from C06's kernel-evaluated table of all 65 536
fraction values (`C06.fracOK_all`), so the statements above hold unconditionally. The
conditional forms are kept: they do not depend on C06's files. -/

theorem scaled_round_trip_holds : ScaledRoundTrip := scaledRoundTrip

theorem parse_print_unconditional (m : Mode) (l : List Node) (he : exprList m l = true) :
    parseToks m (printNodes m l) = some l :=
  parse_print scaledRoundTrip m l he

theorem scaled_text_roundtrip_unconditional (s : Int) (rest : List Char)
    (hs : -1073741823 ≤ s ∧ s ≤ 1073741823) (hr : WordEnd rest) :
    lex (printScaled s ++ rest) = (lex rest).cons (.dim s) :=
  scaled_text_roundtrip scaledRoundTrip s rest hs hr

/-! ## Text level

`renderCalls` is the text `cst::pretty_print` writes (indentation, newlines, `", "`, one
argument per line with trailing commas for calls with a list or five or more arguments,
`[` … `]` blocks), `lex` is the lexer on characters. -/

/-- The model lexer never runs out of fuel: on every text it returns a token list or an error
class of lexer.rs. (The model has no panic outcome: with fix C18-a every overflow and every
malformed escape of the real lexer is an error; this is the model-level half of "arbitrary
text yields a list or located errors, never a panic".) -/
theorem lex_total (s : List Char) : (∃ toks, lex s = .ok toks) ∨ (∃ e, lex s = .err e) := by
  have h := lex_ne_unsupported s.length s (Nat.le_refl _)
  cases hl : lex s with
  | ok t => exact .inl ⟨t, rfl⟩
  | err e => exact .inr ⟨e, rfl⟩
  | unsupported => exact absurd hl h

/-- Every step of the lexer consumes at least the character it looks at, so the result does
not depend on the fuel once it exceeds the length of the text. -/
theorem lex_fuel_irrelevant (s : List Char) (f : Nat) (hf : s.length < f) : lexAux f s = lex s :=
  lexAux_fuel s.length s f (s.length + 1) (Nat.le_refl _) hf (Nat.lt_succ_self _)

/-- **The lexer inverts the printer.** For every CST whose names are words and whose numbers
the language can express (`callsOk`), lexing the printed text gives exactly the CST's tokens:
for every nesting depth, both layouts, and every choice of unescaped characters. -/
theorem lexer_inverts_printer (raw : Char → Bool) (cs : List Call) (hc : callsOk cs = true) :
    lex (renderCalls raw 0 cs) = .ok (printCalls cs) :=
  lex_render scaledRoundTrip raw cs hc

/-- **The round trip at the text level.** Printing any expressible list (`Vec<_>::to_box_lang`
+ `cst::pretty_print`) and parsing the *text* back (lexer, CST parser, `Args::build`,
`to_boxworks`) yields the same list — horizontal, vertical and discretionary lists, all 13
node kinds, any nesting, any characters. -/
theorem text_round_trip (raw : Char → Bool) (m : Mode) (l : List Node) (he : exprList m l = true) :
    parseText m (renderNodes raw m l) = .ok l := by
  unfold parseText renderNodes
  rw [lex_render scaledRoundTrip raw _ (ok_lower m l he)]
  have := parse_print scaledRoundTrip m l he
  unfold printNodes at this
  simp only [this]

/-- The same for a horizontal list printed element by element (`Display for ds::Horizontal`,
the way boxworks-testing prints). -/
theorem text_round_trip_each (raw : Char → Bool) (l : List Node) (he : exprList .H l = true) :
    parseText .H (renderEach raw l) = .ok l := by
  unfold parseText renderEach
  rw [lex_render scaledRoundTrip raw _ (ok_each l he)]
  simp only [parse_print_each scaledRoundTrip l he]

/-- `C18_full_statement` holds for the concrete renderer on the token lists the printer emits
(the hypothesis "for all token lists" of `full_statement_of_lexer_inverse` is stronger than
needed and false for, e.g., an integer token of 2^31). -/
example : renderNodes (fun _ => true) .H [.char 'a' 1, .kern 0 (-98304)] =
    "chars(\"a\", font=1)\nkern(-1.5pt)\n".toList := by decide +kernel
example : renderNodes (fun _ => true) .V [.vbox 0 0 0 0 false [.penalty 5]] =
    ("vbox(\n  height=0.0pt,\n  width=0.0pt,\n  depth=0.0pt,\n  shift_amount=0.0pt,\n" ++
     "  content=[\n    penalty(5)\n  ],\n)\n").toList := by decide +kernel

/-! ## Formatting at the text level

`formatText` is `lang::format` on a text without comments (lex, parse to a CST, pretty-print
with the printer's real layout). Comments are the part of formatting that stays
correspondence-only: the model lexer drops them. -/

/-- Every token the lexer produces can be printed back: names are words, numbers are in the
ranges the text level carries (so the formatter never writes something it cannot read). -/
theorem lexer_output_printable (s : List Char) (toks : List BTok) (h : lex s = .ok toks) :
    toksOk toks = true :=
  lex_toksOk s.length s toks (Nat.le_refl _) h

/-- `format(format(s)) = format(s)`, on text. -/
theorem format_text_idempotent (raw : Char → Bool) (src out : List Char)
    (h : formatText raw src = .ok out) : formatText raw out = .ok out := by
  unfold formatText at h
  cases hl : lex src with
  | err e => rw [hl] at h; cases h
  | unsupported => rw [hl] at h; cases h
  | ok toks =>
    rw [hl] at h
    simp only [] at h
    cases hp : parseSource toks with
    | none => rw [hp] at h; cases h
    | some cs =>
      rw [hp] at h
      simp only [Res.ok.injEq] at h
      subst h
      have hc := parseSource_callsOk toks cs hp (lexer_output_printable src toks hl)
      unfold formatText
      rw [lex_render scaledRoundTrip raw cs hc]
      simp only [parseSource_printCalls]

/-- Formatting does not change what the text parses to, in every list kind. -/
theorem format_text_preserves_meaning (raw : Char → Bool) (src out : List Char)
    (h : formatText raw src = .ok out) (m : Mode) : parseText m out = parseText m src := by
  unfold formatText at h
  cases hl : lex src with
  | err e => rw [hl] at h; cases h
  | unsupported => rw [hl] at h; cases h
  | ok toks =>
    rw [hl] at h
    simp only [] at h
    cases hp : parseSource toks with
    | none => rw [hp] at h; cases h
    | some cs =>
      rw [hp] at h
      simp only [Res.ok.injEq] at h
      subst h
      have hc := parseSource_callsOk toks cs hp (lexer_output_printable src toks hl)
      unfold parseText
      rw [lex_render scaledRoundTrip raw cs hc, hl]
      simp only [parseToks, parseSource_printCalls, hp]

example : formatText (fun _ => true) "kern ( 1.5in,) # c".toList = .ok "kern(108.405pt)\n".toList := by
  decide +kernel

/-! ## Located errors

"Arbitrary text yields a list or *located* errors": every error of the model lexer carries the
label span of the corresponding `lang::Error` (as a pair of suffixes of the source; the real
`Str` is the byte range `byteRange src span`). -/

/-- Every error the lexer reports is one of the six located classes, and its span is a valid
character range of the source: the source splits as `before ++ piece ++ after` with the span
being (`piece ++ after`, `after`) — so its byte range starts and ends on character boundaries,
in order, inside the text. (Mutants 12 and 45 of the sweep broke exactly this in the real
code; the harness compares the real label span with `byteRange`.) -/
theorem lex_error_located (src : List Char) (e : LexErr) (h : lex src = .err e) :
    ∃ before piece after, src = before ++ piece ++ after ∧ e.span = some (piece ++ after, after) := by
  have h1 := lex_err_has_span src.length src e (Nat.le_refl _) h
  cases hs : e.span with
  | none => exact absurd hs h1
  | some sp =>
    obtain ⟨f, t⟩ := sp
    obtain ⟨⟨piece, hp⟩, ⟨before, hb⟩⟩ := lex_err_located src.length src e f t (Nat.le_refl _) h hs
    refine ⟨before, piece, t, ?_, ?_⟩
    · rw [← hb, ← hp, List.append_assoc]
    · rw [hp]

/-- In bytes: `start ≤ end ≤ len`, `start` = the UTF-8 length of `before`, `end` = that of
`before ++ piece`. -/
theorem lex_error_byte_range (src : List Char) (e : LexErr) (h : lex src = .err e) :
    ∃ before piece after sp, src = before ++ piece ++ after ∧ e.span = some sp ∧
      byteRange src sp = (utf8Len before, utf8Len (before ++ piece)) := by
  obtain ⟨before, piece, after, h1, h2⟩ := lex_error_located src e h
  refine ⟨before, piece, after, _, h1, h2, ?_⟩
  have hl : ∀ a b : List Char, utf8Len (a ++ b) = utf8Len a + utf8Len b := by
    intro a b; induction a with
    | nil => simp [utf8Len]
    | cons c a ih => simp only [List.cons_append, utf8Len, ih]; omega
  simp only [byteRange, h1, hl, Prod.mk.injEq]
  constructor <;> omega

example : lex "kern(1.5.2pt)".toList =
    .err (.multipleDecimalPoints (".2pt)".toList, "2pt)".toList)) := by decide +kernel
example : byteRange "kern(1.5.2pt)".toList (".2pt)".toList, "2pt)".toList) = (8, 9) := by decide
example : lex "chars(\"ä\\q\")".toList =
    .err (.unknownEscapeSequence ("\\q\")".toList, "\")".toList)) := by decide +kernel

/-! ## Comments, conversions, `Display for ds::VBox` -/

/-- A comment line (`#` to the end of the line) in front of any text lexes to nothing, hence
changes neither the tokens nor what the text parses to. -/
theorem comment_line_ignored (cmt s : List Char) (h : ∀ x ∈ cmt, x ≠ '\n') (m : Mode) :
    lex ('#' :: (cmt ++ '\n' :: s)) = lex s ∧
    parseText m ('#' :: (cmt ++ '\n' :: s)) = parseText m s := by
  have := lex_comment cmt s h
  exact ⟨this, by unfold parseText; rw [this]⟩

/-- Inserting a comment line between two blocks of printed calls (top level, or inside a list
at any depth `d`) does not change what the text lexes to. -/
theorem comment_between_calls (raw : Char → Bool) (cs : List Call) (d : Nat) (cmt rest : List Char)
    (hc : callsOk cs = true) (h : ∀ x ∈ cmt, x ≠ '\n') :
    lex (renderCalls raw d cs ++ '#' :: (cmt ++ '\n' :: rest)) = lex (renderCalls raw d cs ++ rest) :=
  lex_comment_after_calls scaledRoundTrip raw cs d cmt rest hc h

/-- …but `#` inside a string is a character, not a comment. -/
example : lex "chars(\"#\")".toList = .ok [.kw "chars".toList, .lparen, .str ['#'], .rparen] := by
  decide +kernel

/-- **convert.rs + ast.rs, both directions**: `ToBoxLang` + `lower_arg` (with the merging of
character runs) followed by `Args::build` + `ToBoxworks` is the identity on every expressible
list (and `normList` in general, see `parse_print_normalize`). -/
theorem convert_round_trip (m : Mode) (l : List Node) (he : exprList m l = true) :
    build m (lower m l) = some l := by
  have h := repr_list_of_expr m l he
  have := build_lower scaledRoundTrip m l h.1
  rw [h.2] at this
  exact this

/-- `Display for ds::VBox` writes the call of the box alone (`CstTreeIter::Other`), i.e. the
element-wise text of the one-element list; reading it back gives that box. -/
theorem display_vbox_round_trip (raw : Char → Bool) (h w d s : Int) (l : List Node)
    (he : exprNode (.vbox h w d s false l) = true) :
    parseText .H (renderCalls raw 0 [lowerNode (.vbox h w d s false l)]) = .ok [.vbox h w d s false l] := by
  have := text_round_trip_each raw [.vbox h w d s false l] (by simp [exprList, allowed, he])
  simpa [renderEach, lowerEach] using this

/-! ## The bracket pre-pass

`closeScan` is `Lexer::build` started after an opening bracket. The real parser cuts the text
of an argument list / a list at the closer this pass finds and gives it to a sub-lexer; the
model parser finds the end by parsing. On everything the printer writes the two agree: -/

/-- The pre-pass closes the parenthesis of a printed call exactly after its arguments (in
either layout, at any depth, with any strings inside — quotes, backslashes, brackets, `#`). -/
theorem prepass_closes_call (raw : Char → Bool) (k : Nat) (args : List Arg) (rest : List Char)
    (ha : argsOk args = true) :
    let txt := if multiline args then renderArgsMulti raw k args ++ '\n' :: indent k
               else renderArgsSingle raw k args
    closeScan .regular 0 (txt ++ ')' :: rest) = some (txt, ')', rest) := by
  intro txt
  by_cases hm : multiline args = true
  · have e : txt = renderArgsMulti raw k args ++ '\n' :: indent k := by simp [txt, hm]
    rw [e]
    simp only [List.append_assoc, List.cons_append]
    rw [closeScan_renderArgsMulti raw args k 0 _ ha, closeScan_plain1 '\n' plain_nl,
      closeScan_plain _ 0 _ (plain_indent k), closeScan_close_zero ')' (.inl rfl)]
    rw [← consAll_cons, ← consAll_append, consAll_some]
  · have hm' : multiline args = false := by simpa using hm
    have e : txt = renderArgsSingle raw k args := by simp [txt, hm']
    rw [e, closeScan_renderArgsSingle raw args k 0 _ ha, closeScan_close_zero ')' (.inl rfl), consAll_some]

/-- …and the square bracket of a printed list exactly after its calls. -/
theorem prepass_closes_list (raw : Char → Bool) (k : Nat) (cs : List Call) (rest : List Char)
    (hc : callsOk cs = true) :
    closeScan .regular 0 (renderCalls raw k cs ++ indent (k - 2) ++ ']' :: rest) =
      some (renderCalls raw k cs ++ indent (k - 2), ']', rest) := by
  simp only [List.append_assoc]
  rw [closeScan_renderCalls raw cs k 0 _ hc, closeScan_plain _ 0 _ (plain_indent (k - 2)),
    closeScan_close_zero ']' (.inr rfl), ← consAll_append, consAll_some]

/-- A printed string is invisible to the pre-pass whatever it contains (mutant 11 of the sweep:
"`\\\"` ends the string" breaks this in the real code). -/
theorem prepass_skips_string (raw : Char → Bool) (s : Str) (d : Nat) (rest : List Char) :
    closeScan .regular d (printStr raw s ++ rest) = consAll (printStr raw s) (closeScan .regular d rest) :=
  closeScan_printStr raw s d rest

/-- A comment line is invisible to the pre-pass whatever brackets and quotes it contains
(mutant 10: "the pre-pass ignores comments"). -/
theorem prepass_skips_comment (cmt : List Char) (d : Nat) (rest : List Char) (h : ∀ x ∈ cmt, x ≠ '\n') :
    closeScan .regular d ('#' :: (cmt ++ '\n' :: rest)) =
      consAll ('#' :: (cmt ++ ['\n'])) (closeScan .regular d rest) := by
  have : closeScan .regular d ('#' :: (cmt ++ '\n' :: rest)) =
      consIn '#' (closeScan .comment d (cmt ++ '\n' :: rest)) := by simp [closeScan]
  rw [this, closeScan_comment cmt d rest h]
  rfl

example : closeScan .regular 0 "\"a)\\\"]\" # ) \n 1pt)x".toList =
    some ("\"a)\\\"]\" # ) \n 1pt".toList, ')', ['x']) := by decide +kernel

/-! ## Why some one-site changes of the code do not break the property

Three families of the mutation sweep (mutants/C18) were detected only as model drift; these
lemmas say why the property survives them. -/

/-- Mutant 16 (arguments separated by a space instead of `", "`): commas between arguments are
optional for the parser, the same argument list is read with none at all. -/
theorem commas_optional (args : List Arg) (rest : List BTok) (f : Nat)
    (hf : (printArgsBare args).length + 1 < f) :
    parseArgs f (printArgsBare args ++ .rparen :: rest) = some (args, rest) :=
  parseArgs_bare args f rest hf

/-- Mutant 08 (the lexer keeps 5 instead of 17 fraction digits): the printer never writes more
than five (TeX §103), so nothing printed is affected. -/
theorem printed_fraction_at_most_5_digits (s : Int) :
    (fracDigits (s.natAbs % 65536)).length ≤ 5 :=
  fracDigits_short _ (Nat.mod_lt _ (by omega))

/-- Mutant 17 (`escape_default` instead of `escape_debug`) and every other choice of which
characters are written as `\u{…}`: `string_escape_roundtrip` holds for every `raw`; here the
two extremes. -/
example (s : Str) (rest : List Char) :
    lex (printStr (fun _ => true) s ++ rest) = lex (printStr (fun _ => false) s ++ rest) := by
  rw [lex_str, lex_str]

/-! ## Glue ratios (finding C18-e)

`Display for GlueRatio` writes `|num/den|` rounded to 2^-16 and capped at `20000.0`
(TeX §186) — up to 1 310 720 000 sp as a scaled value, above the largest dimension. The
line breaker produces such boxes (a last line with `\parfillskip=0pt plus 0.00005fill`).
Before fix C18-e `from_float_str` read the number as a dimension and rejected 16384 and more;
with the fix the whole printable range is read back. -/

/-- Every glue ratio text the printer can write (and every value up to `i32::MAX`) is read
back by `GlueRatio::from_float_str` as the value it denotes. This is the ratio domain of
`text_round_trip` (`exprNode`: `0 ≤ ratio ≤ 2^31 - 1`). -/
theorem glue_ratio_text_roundtrip (g : Nat) (hg : g ≤ 2147483647) :
    parseRatio (printNoUnits (g : Int)) = some (g : Int) :=
  parseRatio_print scaledRoundTrip g hg

example : parseRatio "20000.0".toList = some 1310720000 := by decide +kernel
/-- The list of the report: an hbox whose glue ratio prints as `20000.0` is expressible… -/
example : exprList .H [.hbox 0 0 0 0 1310720000 .fill [.glue 0 0 3 .fill 0 .normal]] = true := by decide
/-- …whereas the pre-fix reader computed `Scaled::new(20000, 0, pt)`, an overflow. -/
example : scaledNew 20000 0 1 1 false = none := by decide
example : scaledNew 16384 0 1 1 false = none ∧ scaledNew 16383 65535 1 1 false = some 1073741823 := by decide

end C18
