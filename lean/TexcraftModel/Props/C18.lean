import TexcraftModel.Lemmas.C18
import TexcraftModel.Lemmas.C18Cst
import TexcraftModel.Lemmas.C18Build
import TexcraftModel.Lemmas.C18Scaled

/-!
# C18 — the Box language: property theorems

Helper lemmas: `Lemmas/C18.lean` (text level), `Lemmas/C18Cst.lean` (tokens ⇄ CST),
`Lemmas/C18Build.lean` (CST ⇄ lists).

Leaf level (text ⇄ token values)
* `string_escape_roundtrip`   every string, whatever characters Rust prints raw
* `integer_text_roundtrip`    every integer in (-2^31, 2^31)
* `scaled_text_roundtrip`     every dimension with |s| < 2^30 sp   (given `ScaledRoundTrip`)
* `infinite_glue_text_roundtrip` every fil/fill/filll amount with |s| < 2^31
* `glue_order_keyword`, `glue_order_unit`

Token level
* `parse_print`       printing any expressible list (all 13 node kinds, nested, runs of
                      characters merged per font) and parsing the tokens back gives the list
* `parse_print_each`  the same for the per-element printer (`Display for ds::Horizontal`)
* `parse_print_normalize`, `normalize_id`  what printing forgets (`normList`), and that it
                      forgets nothing on expressible lists
* `parse_print_cst`   parsing a pretty-printed CST gives the CST back, with any continuation
* `format_idempotent`, `format_preserves_meaning`
-/
namespace C18

/-! ## Leaf level -/

/-- A string printed by cst.rs `Value::fmt` (quotes, `escape_debug` of every character) is read
back by the lexer as the same string, for **every** scalar value — including `"`, `\`,
control and non-ASCII characters — and whichever characters the printer leaves unescaped. -/
theorem string_escape_roundtrip (raw : Char → Bool) (s : Str) (rest : List Char) :
    scanStr .norm (escapeStr raw s ++ '"' :: rest) = .ok (s, rest) :=
  scanStr_escapeStr raw s rest

example : scanStr .norm (escapeStr (fun c => c.toNat ≥ 32 && c.toNat < 127)
    ['"', '\\', '\n', 'ä', '\x00', '\'', 'a'] ++ '"' :: [')']) =
    .ok (['"', '\\', '\n', 'ä', '\x00', '\'', 'a'], [')']) := string_escape_roundtrip _ _ _

/-- The double quote, which the quantifier of the property excludes, round-trips as well. -/
example : escapeStr (fun _ => true) ['"'] = ['\\', '"'] := by decide

/-- `{}` of an `i32` other than `i32::MIN`, followed by anything that does not continue a
number, lexes to the same integer. -/
theorem integer_text_roundtrip (n : Int) (rest : List Char)
    (hn : -2147483647 ≤ n ∧ n ≤ 2147483647) (hr : Terminated rest) (f : Nat) :
    lexAux (f + 1) (printInt n ++ rest) = (lexAux f rest).cons (.int n) := by
  unfold printInt
  by_cases hneg : n < 0
  · simp only [hneg, if_true, List.cons_append]
    have h := lexNumber_int true n.natAbs rest (by omega) hr
    have e : ((if true = true then -1 else 1 : Int)) * (n.natAbs : Int) = n := by simp; omega
    rw [e] at h
    simp [lexAux, isWs, h]
  · simp only [hneg, if_false]
    have h := lexNumber_int false n.natAbs rest (by omega) hr
    have e : ((if false = true then -1 else 1 : Int)) * (n.natAbs : Int) = n := by simp; omega
    rw [e] at h
    have hne := natDigits_ne_nil n.natAbs
    have hlt := natDigits_lt n.natAbs
    unfold natChars at h ⊢
    cases hd : natDigits n.natAbs with
    | nil => exact absurd hd hne
    | cons d ds =>
      rw [hd] at h hlt
      have hd10 : d < 10 := hlt d (by simp)
      have hdv := digitVal_digitChar hd10
      simp only [List.map_cons, List.cons_append] at h ⊢
      have hc : ∀ c : Char, digitVal c = none → digitChar d ≠ c := by
        intro c hc heq; rw [heq] at hdv; rw [hc] at hdv; cases hdv
      simp only [lexAux, hc '#' (by decide), hc '(' (by decide), hc ')' (by decide),
        hc '[' (by decide), hc ']' (by decide), hc ',' (by decide), hc '=' (by decide),
        hc '"' (by decide), hc '-' (by decide), if_false]
      have hws : isWs (digitChar d) = false := by
        have : d = 0 ∨ d = 1 ∨ d = 2 ∨ d = 3 ∨ d = 4 ∨ d = 5 ∨ d = 6 ∨ d = 7 ∨ d = 8 ∨ d = 9 := by
          omega
        rcases this with h | h | h | h | h | h | h | h | h | h <;> subst h <;> decide
      simp [hws, hdv, h]

example : Terminated [')'] := ⟨by decide, by decide, by decide⟩

/-- `ScaledRoundTrip` is the decimal round trip of TeX §102/§103 on the 65 536 fraction values
(C06's theorem about `Scaled::display_no_units` / `from_decimal_digits`). Given it, every
dimension the language can express, printed by `Display for Scaled`, lexes to itself. -/
theorem scaled_text_roundtrip (H : ScaledRoundTrip) (s : Int) (rest : List Char)
    (hs : -1073741823 ≤ s ∧ s ≤ 1073741823) (hr : WordEnd rest) :
    (if s < 0 then lexNumber true ((printScaled s).tail ++ rest)
     else lexNumber false (printScaled s ++ rest)) = .ok (.dim s, rest) := by
  unfold printScaled printNoUnits
  by_cases hneg : s < 0
  · simp only [hneg, if_true, List.cons_append, List.nil_append, List.tail_cons, List.append_assoc]
    have h1 := lexNumber_scaled H true s.natAbs ['p', 't'] rest (by decide) (by simp)
    have h2 := lexUnit_pt H true s.natAbs (by omega) rest hr
    unfold printNoUnits at h1
    have e : ¬ ((s.natAbs : Int) < 0) := by omega
    simp only [e, if_false, List.nil_append, Int.natAbs_natCast, List.append_assoc,
      List.cons_append] at h1
    rw [h1]
    simp only [List.cons_append, List.nil_append] at h2
    rw [h2]
    simp; omega
  · simp only [hneg, if_false, List.nil_append, List.append_assoc]
    have h1 := lexNumber_scaled H false s.natAbs ['p', 't'] rest (by decide) (by simp)
    have h2 := lexUnit_pt H false s.natAbs (by omega) rest hr
    unfold printNoUnits at h1
    have e : ¬ ((s.natAbs : Int) < 0) := by omega
    simp only [e, if_false, List.nil_append, Int.natAbs_natCast, List.append_assoc,
      List.cons_append] at h1
    simp only [List.cons_append, List.nil_append]
    rw [h1]
    simp only [List.cons_append, List.nil_append] at h2
    rw [h2]
    simp; omega

example : WordEnd [')'] := ⟨by decide, by decide⟩
example : WordEnd [',', ' '] := ⟨by decide, by decide⟩

/-- The same for an infinite glue component `<number>fil|fill|filll`, for every amount
other than `i32::MIN`. -/
theorem infinite_glue_text_roundtrip (H : ScaledRoundTrip) (s : Int) (o : InfOrder)
    (rest : List Char) (hs : -2147483647 ≤ s ∧ s ≤ 2147483647) (hr : WordEnd rest) :
    lexNumber (decide (s < 0)) (printNoUnits (s.natAbs : Int) ++ (o.unit ++ rest)) =
      .ok (.inf s o, rest) := by
  have hu : ∀ c ∈ o.unit, isAlpha c = true := by cases o <;> decide
  have hne : o.unit ≠ [] := by cases o <;> simp [InfOrder.unit]
  rw [lexNumber_scaled H _ s.natAbs o.unit rest hu hne, lexUnit_inf H _ s.natAbs (by omega) o rest hr]
  by_cases hneg : s < 0
  · simp [hneg]; omega
  · simp [hneg]; omega

/-- `"normal" | "fil" | "fill" | "filll"` (the `glue_order` argument). -/
theorem glue_order_keyword (o : Order) : Order.ofKeyword o.keyword = some o :=
  Order.ofKeyword_keyword o

/-- `fil | fill | filll` as a unit. -/
theorem glue_order_unit (o : InfOrder) : InfOrder.ofUnit o.unit = some o :=
  InfOrder.ofUnit_unit o

/-! ## Token level: CST -/

/-- Parsing the tokens of a pretty-printed CST gives the CST back and leaves the continuation,
for every CST (every function name, argument shape and nesting). -/
theorem parse_print_cst (cs : List Call) (rest : List BTok) (f : Nat)
    (hf : (printCalls cs).length < f) (hr : NotCallStart rest) :
    parseCalls f (printCalls cs ++ rest) = some (cs, rest) :=
  parseCalls_print cs f rest hf hr

example : NotCallStart [.rbrack, .comma] := by simp [NotCallStart]

/-- `format(format(s)) = format(s)` on the token level (layout and comments are below this
level). -/
theorem format_idempotent (toks toks' : List BTok) (h : formatToks toks = some toks') :
    formatToks toks' = some toks' := by
  unfold formatToks at h ⊢
  cases hp : parseSource toks with
  | none => rw [hp] at h; cases h
  | some cs =>
    rw [hp] at h
    simp only [Option.map_some, Option.some.injEq] at h
    subst h
    rw [parseSource_printCalls]
    rfl

/-- Formatting does not change what the text parses to: same CST, hence the same list in
every list kind. -/
theorem format_preserves_meaning (toks toks' : List BTok) (h : formatToks toks = some toks')
    (m : Mode) : parseToks m toks' = parseToks m toks := by
  unfold formatToks at h
  cases hp : parseSource toks with
  | none => rw [hp] at h; cases h
  | some cs =>
    rw [hp] at h
    simp only [Option.map_some, Option.some.injEq] at h
    subst h
    unfold parseToks
    rw [parseSource_printCalls, hp]

example : formatToks [.kw ['k'], .lparen, .dim 5, .comma, .rparen] =
    some [.kw ['k'], .lparen, .dim 5, .rparen] := by decide

/-! ## Token level: lists -/

/-- **The round trip.** For every list the language can express (`exprList`: all node kinds,
glue of all orders, normal kerns, rules with running dimensions, ligatures, discretionaries,
nested boxes, insertions, marks, adjusts, math; any characters; dimensions up to TeX's
`max_dimen`), in every list kind, printing with the list printer and parsing the tokens back
gives the same list. `ScaledRoundTrip` is needed for one thing only: the glue ratio of an
hbox travels as decimal text inside a string token. -/
theorem parse_print (H : ScaledRoundTrip) (m : Mode) (l : List Node) (he : exprList m l = true) :
    parseToks m (printNodes m l) = some l := by
  unfold parseToks printNodes
  rw [parseSource_printCalls]
  have h := repr_list_of_expr m l he
  have := build_lower H m l h.1
  rw [h.2] at this
  exact this

/-- The same for the printer that boxworks-testing uses (one `Display` per element, no merging
of character runs across elements). -/
theorem parse_print_each (H : ScaledRoundTrip) (l : List Node) (he : exprList .H l = true) :
    parseToks .H (printCalls (lowerEach l)) = some l := by
  unfold parseToks
  rw [parseSource_printCalls]
  have h := repr_list_of_expr .H l he
  have := build_each H l _ (Nat.lt_succ_self _) h.1
  rw [h.2] at this
  exact this

/-- What exactly printing forgets. At the token level the round trip holds for every
well-moded list whose counters fit their types (`reprList`: no bound on dimensions, any kern
kind, glue kind, mark, vbox glue set) and gives `normList l`: kinds reset to normal, marks
emptied, the glue set of vboxes dropped, everything else — recursively — unchanged. -/
theorem parse_print_normalize (H : ScaledRoundTrip) (m : Mode) (l : List Node)
    (he : reprList m l = true) : parseToks m (printNodes m l) = some (normList l) := by
  unfold parseToks printNodes
  rw [parseSource_printCalls]
  exact build_lower H m l he

/-- On the lists the language can express nothing is forgotten. -/
theorem normalize_id (m : Mode) (l : List Node) (he : exprList m l = true) : normList l = l :=
  (repr_list_of_expr m l he).2

example : reprList .H [.kern 3 (2 ^ 31), .mark 5, .vbox 0 0 0 0 true [.glue 2 0 0 .normal 0 .normal]] = true := by
  decide
example : normList [.kern 3 (2 ^ 31), .mark 5, .vbox 0 0 0 0 true [.glue 2 0 0 .normal 0 .normal]] =
    [.kern 0 (2 ^ 31), .mark 0, .vbox 0 0 0 0 false [.glue 0 0 0 .normal 0 .normal]] := by rfl

/-- A non-trivial list meeting the hypothesis: merged character runs in two fonts (one above
`i32::MAX`), infinite glue, a running rule, a ligature, a discretionary, nested boxes, an
insertion, a mark, an adjust and math nodes. -/
example : exprList .H
    [.char 'a' 1, .char '"' 1, .char 'ä' 4294967295, .glue 0 65536 3 .fil (-5) .filll,
     .hbox 1 2 3 4 43000 .fill [.char 'x' 0, .kern 0 (-1073741823),
       .disc [.char '-' 0, .lig 'f' ['f', 'i'] 3 true false] [.rule running 5 6] 1],
     .vbox 0 0 0 0 false [.penalty (-10000), .mark 0, .ins 255 1 2 3 4 .normal 5 .fil 7 [.math true]],
     .adjust [.glue 0 0 2147483647 .fill 0 .normal], .math false] = true := by decide

/-! ## Boundaries: values the language cannot express (negation witnesses)

`exprList` excludes exactly these; each line shows that the restriction is needed. -/

/-- A dimension of 16384pt = 2^30 sp is printed (`16384.0pt`) but the lexer rejects it. -/
example : lexNumber false ['1', '6', '3', '8', '4', '.', '0', 'p', 't'] = .err := by rfl
/-- `i32::MIN` is printed (`-2147483648`) but the lexer rejects it (integers are in (-2^31, 2^31)). -/
example : lexNumber true ['2', '1', '4', '7', '4', '8', '3', '6', '4', '8'] = .err := by rfl
/-- A rule dimension of exactly -2^31 sp *is* "running" (there is no other way to write it). -/
example : runningVal (-2147483648) = .str ['r', 'u', 'n', 'n', 'i', 'n', 'g'] := by rfl
/-- Kern kinds, glue kinds, mark contents and the glue set of a vbox have no syntax. -/
example : lowerNode (.kern 1 5) = lowerNode (.kern 0 5) := rfl
example : lowerNode (.mark 2) = lowerNode (.mark 0) := rfl
example : lowerNode (.vbox 1 2 3 4 true []) = lowerNode (.vbox 1 2 3 4 false []) := rfl
/-- A font (or replace count, float penalty) of exactly 2^31 prints as `-2147483648`. -/
example : toI32 2147483648 = -2147483648 := by decide

/-! ## The full statement (text level), not proved

Composing the leaf theorems with `parse_print` into one statement about *text* needs a
rendering of token lists to characters and a proof that the lexer inverts it for every
token sequence and layout (whitespace, comments, commas, the bracket pre-pass). That part of
the real lexer is tied to the model by the correspondence check only. -/
def C18_full_statement : Prop :=
  ScaledRoundTrip → ∀ (render : List BTok → List Char), (∀ toks, lex (render toks) = .ok toks) →
    ∀ (m : Mode) (l : List Node), exprList m l = true →
      parseText m (render (printNodes m l)) = .ok l

/-- …which follows from `parse_print` for any renderer the lexer inverts. -/
theorem full_statement_of_lexer_inverse : C18_full_statement := by
  intro H render hr m l he
  unfold parseText
  rw [hr]
  simp only [parse_print H m l he]

/-! ## `ScaledRoundTrip` discharged

`Lemmas/C18Scaled.lean` derives the hypothesis from C06's kernel-evaluated table of all 65 536
fraction values (`C06.fracOK_all`), so the statements above hold unconditionally. The
conditional forms are kept: they do not depend on C06's files. -/

theorem scaled_round_trip_holds : ScaledRoundTrip := scaledRoundTrip

theorem parse_print_unconditional (m : Mode) (l : List Node) (he : exprList m l = true) :
    parseToks m (printNodes m l) = some l :=
  parse_print scaledRoundTrip m l he

theorem scaled_text_roundtrip_unconditional (s : Int) (rest : List Char)
    (hs : -1073741823 ≤ s ∧ s ≤ 1073741823) (hr : WordEnd rest) :
    (if s < 0 then lexNumber true ((printScaled s).tail ++ rest)
     else lexNumber false (printScaled s ++ rest)) = .ok (.dim s, rest) :=
  scaled_text_roundtrip scaledRoundTrip s rest hs hr

end C18
