import TexcraftModel.Lemmas.C06Mut
/-! Kernel-evaluated table: `mutOK` on the 8192 fraction values from 57344. -/
namespace C06
theorem mut_chunk_7 : checkDepth mutOK 13 57344 = true := by decide +kernel
end C06
