import TexcraftModel.Lemmas.C06Frac
/-! Kernel-evaluated table: `fracOK` on the 4096 fraction values from 12288. -/
namespace C06
theorem frac_chunk_03 : checkDepth fracOK 12 12288 = true := by decide +kernel
end C06
