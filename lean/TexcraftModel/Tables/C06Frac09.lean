import TexcraftModel.Lemmas.C06Frac
/-! Kernel-evaluated table: `fracOK` on the 4096 fraction values from 36864. -/
namespace C06
theorem frac_chunk_09 : checkDepth fracOK 12 36864 = true := by decide +kernel
end C06
