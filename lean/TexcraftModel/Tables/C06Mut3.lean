import TexcraftModel.Lemmas.C06Mut
/-! Kernel-evaluated table: `mutOK` on the 8192 fraction values from 24576. -/
namespace C06
theorem mut_chunk_3 : checkDepth mutOK 13 24576 = true := by decide +kernel
end C06
