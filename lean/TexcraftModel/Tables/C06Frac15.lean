import TexcraftModel.Lemmas.C06Frac
/-! Kernel-evaluated table: `fracOK` on the 4096 fraction values from 61440. -/
namespace C06
theorem frac_chunk_15 : checkDepth fracOK 12 61440 = true := by decide +kernel
end C06
