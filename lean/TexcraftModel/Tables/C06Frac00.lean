import TexcraftModel.Lemmas.C06Frac
/-! Kernel-evaluated table: `fracOK` on the 4096 fraction values from 0. -/
namespace C06
theorem frac_chunk_00 : checkDepth fracOK 12 0 = true := by decide +kernel
end C06
