import TexcraftModel.Tables.C06Frac00
import TexcraftModel.Tables.C06Frac01
import TexcraftModel.Tables.C06Frac02
import TexcraftModel.Tables.C06Frac03
import TexcraftModel.Tables.C06Frac04
import TexcraftModel.Tables.C06Frac05
import TexcraftModel.Tables.C06Frac06
import TexcraftModel.Tables.C06Frac07
import TexcraftModel.Tables.C06Frac08
import TexcraftModel.Tables.C06Frac09
import TexcraftModel.Tables.C06Frac10
import TexcraftModel.Tables.C06Frac11
import TexcraftModel.Tables.C06Frac12
import TexcraftModel.Tables.C06Frac13
import TexcraftModel.Tables.C06Frac14
import TexcraftModel.Tables.C06Frac15
import TexcraftModel.Tables.C06Short
/-! The 65 536 fraction values and the short digit strings, assembled. -/
namespace C06

theorem fracOK_all (fr : Nat) (h : fr < 65536) : fracOK fr = true := by
  have c := checkDepth_spec fracOK 12
  by_cases h0 : fr < 4096; exact c 0 frac_chunk_00 fr (by omega) (by omega)
  by_cases h1 : fr < 8192; exact c 4096 frac_chunk_01 fr (by omega) (by omega)
  by_cases h2 : fr < 12288; exact c 8192 frac_chunk_02 fr (by omega) (by omega)
  by_cases h3 : fr < 16384; exact c 12288 frac_chunk_03 fr (by omega) (by omega)
  by_cases h4 : fr < 20480; exact c 16384 frac_chunk_04 fr (by omega) (by omega)
  by_cases h5 : fr < 24576; exact c 20480 frac_chunk_05 fr (by omega) (by omega)
  by_cases h6 : fr < 28672; exact c 24576 frac_chunk_06 fr (by omega) (by omega)
  by_cases h7 : fr < 32768; exact c 28672 frac_chunk_07 fr (by omega) (by omega)
  by_cases h8 : fr < 36864; exact c 32768 frac_chunk_08 fr (by omega) (by omega)
  by_cases h9 : fr < 40960; exact c 36864 frac_chunk_09 fr (by omega) (by omega)
  by_cases h10 : fr < 45056; exact c 40960 frac_chunk_10 fr (by omega) (by omega)
  by_cases h11 : fr < 49152; exact c 45056 frac_chunk_11 fr (by omega) (by omega)
  by_cases h12 : fr < 53248; exact c 49152 frac_chunk_12 fr (by omega) (by omega)
  by_cases h13 : fr < 57344; exact c 53248 frac_chunk_13 fr (by omega) (by omega)
  by_cases h14 : fr < 61440; exact c 57344 frac_chunk_14 fr (by omega) (by omega)
  exact c 61440 frac_chunk_15 fr (by omega) (by omega)

theorem shortOK_all (l : List Nat) (hd : ∀ d ∈ l, d < 10) (hl : l.length ≤ 4) : shortOK l = true := by
  have hm := mem_allLists l hd
  have key : ∀ k, (allLists k).all shortOK = true → l.length = k → shortOK l = true := by
    intro k hk he
    rw [he] at hm
    exact List.all_eq_true.mp hk l hm
  have : l.length = 0 ∨ l.length = 1 ∨ l.length = 2 ∨ l.length = 3 ∨ l.length = 4 := by omega
  rcases this with h | h | h | h | h
  · exact key 0 short_0 h
  · exact key 1 short_1 h
  · exact key 2 short_2 h
  · exact key 3 short_3 h
  · exact key 4 short_4 h

end C06
