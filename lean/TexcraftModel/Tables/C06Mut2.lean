import TexcraftModel.Lemmas.C06Mut
/-! Kernel-evaluated table: `mutOK` on the 8192 fraction values from 16384. -/
namespace C06
theorem mut_chunk_2 : checkDepth mutOK 13 16384 = true := by decide +kernel
end C06
