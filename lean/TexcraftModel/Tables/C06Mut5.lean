import TexcraftModel.Lemmas.C06Mut
/-! Kernel-evaluated table: `mutOK` on the 8192 fraction values from 40960. -/
namespace C06
theorem mut_chunk_5 : checkDepth mutOK 13 40960 = true := by decide +kernel
end C06
