import TexcraftModel.Lemmas.C06Frac
/-! Kernel-evaluated table: `fracOK` on the 4096 fraction values from 49152. -/
namespace C06
theorem frac_chunk_12 : checkDepth fracOK 12 49152 = true := by decide +kernel
end C06
