import TexcraftModel.Tables.C06Mut0
import TexcraftModel.Tables.C06Mut1
import TexcraftModel.Tables.C06Mut2
import TexcraftModel.Tables.C06Mut3
import TexcraftModel.Tables.C06Mut4
import TexcraftModel.Tables.C06Mut5
import TexcraftModel.Tables.C06Mut6
import TexcraftModel.Tables.C06Mut7
namespace C06
theorem mutOK_all (fr : Nat) (h : fr < 65536) : mutOK fr = true := by
  have c := checkDepth_spec mutOK 13
  by_cases h0 : fr < 8192; exact c 0 mut_chunk_0 fr (by omega) (by omega)
  by_cases h1 : fr < 16384; exact c 8192 mut_chunk_1 fr (by omega) (by omega)
  by_cases h2 : fr < 24576; exact c 16384 mut_chunk_2 fr (by omega) (by omega)
  by_cases h3 : fr < 32768; exact c 24576 mut_chunk_3 fr (by omega) (by omega)
  by_cases h4 : fr < 40960; exact c 32768 mut_chunk_4 fr (by omega) (by omega)
  by_cases h5 : fr < 49152; exact c 40960 mut_chunk_5 fr (by omega) (by omega)
  by_cases h6 : fr < 57344; exact c 49152 mut_chunk_6 fr (by omega) (by omega)
  exact c 57344 mut_chunk_7 fr (by omega) (by omega)
end C06
