import TexcraftModel.Lemmas.C06Frac
/-! Kernel-evaluated table: `fracOK` on the 4096 fraction values from 57344. -/
namespace C06
theorem frac_chunk_14 : checkDepth fracOK 12 57344 = true := by decide +kernel
end C06
