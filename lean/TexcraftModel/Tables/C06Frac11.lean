import TexcraftModel.Lemmas.C06Frac
/-! Kernel-evaluated table: `fracOK` on the 4096 fraction values from 45056. -/
namespace C06
theorem frac_chunk_11 : checkDepth fracOK 12 45056 = true := by decide +kernel
end C06
