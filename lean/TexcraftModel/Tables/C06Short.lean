import TexcraftModel.Lemmas.C06Frac
/-! Kernel-evaluated table: `shortOK` on every digit string of length 0..4 (11 111 strings). -/
namespace C06
theorem short_0 : (allLists 0).all shortOK = true := by decide +kernel
theorem short_1 : (allLists 1).all shortOK = true := by decide +kernel
theorem short_2 : (allLists 2).all shortOK = true := by decide +kernel
theorem short_3 : (allLists 3).all shortOK = true := by decide +kernel
theorem short_4 : (allLists 4).all shortOK = true := by decide +kernel
end C06
