import TexcraftModel.Lemmas.C06Frac
/-! Kernel-evaluated table: `fracOK` on the 4096 fraction values from 20480. -/
namespace C06
theorem frac_chunk_05 : checkDepth fracOK 12 20480 = true := by decide +kernel
end C06
