import TexcraftModel.Lemmas.C06Frac
/-! Kernel-evaluated table: `fracOK` on the 4096 fraction values from 28672. -/
namespace C06
theorem frac_chunk_07 : checkDepth fracOK 12 28672 = true := by decide +kernel
end C06
