import TexcraftModel.Lemmas.C06Mut
/-! Kernel-evaluated table: `mutOK` on the 8192 fraction values from 32768. -/
namespace C06
theorem mut_chunk_4 : checkDepth mutOK 13 32768 = true := by decide +kernel
end C06
