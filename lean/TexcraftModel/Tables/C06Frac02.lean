import TexcraftModel.Lemmas.C06Frac
/-! Kernel-evaluated table: `fracOK` on the 4096 fraction values from 8192. -/
namespace C06
theorem frac_chunk_02 : checkDepth fracOK 12 8192 = true := by decide +kernel
end C06
