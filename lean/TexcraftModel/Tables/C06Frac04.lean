import TexcraftModel.Lemmas.C06Frac
/-! Kernel-evaluated table: `fracOK` on the 4096 fraction values from 16384. -/
namespace C06
theorem frac_chunk_04 : checkDepth fracOK 12 16384 = true := by decide +kernel
end C06
