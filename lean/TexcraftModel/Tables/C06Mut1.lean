import TexcraftModel.Lemmas.C06Mut
/-! Kernel-evaluated table: `mutOK` on the 8192 fraction values from 8192. -/
namespace C06
theorem mut_chunk_1 : checkDepth mutOK 13 8192 = true := by decide +kernel
end C06
