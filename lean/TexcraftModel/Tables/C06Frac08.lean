import TexcraftModel.Lemmas.C06Frac
/-! Kernel-evaluated table: `fracOK` on the 4096 fraction values from 32768. -/
namespace C06
theorem frac_chunk_08 : checkDepth fracOK 12 32768 = true := by decide +kernel
end C06
