import TexcraftModel.Lemmas.C06Mut
/-! Kernel-evaluated table: `mutOK` on the 8192 fraction values from 0. -/
namespace C06
theorem mut_chunk_0 : checkDepth mutOK 13 0 = true := by decide +kernel
end C06
