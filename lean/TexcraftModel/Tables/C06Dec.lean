import TexcraftModel.Model.C06Dec
import TexcraftModel.Lemmas.C06Frac
/-! Kernel-evaluated table: `dec5 n` = the digits of `toString n` for every `n < 16384`. -/
namespace C06
theorem dec_table : checkDepth decOK 14 0 = true := by decide +kernel
theorem decOK_all (n : Nat) (h : n < 16384) : decOK n = true :=
  checkDepth_spec decOK 14 0 dec_table n (by omega) (by omega)
end C06
