import TexcraftModel.Lemmas.C06Frac
/-! Kernel-evaluated table: `fracOK` on the 4096 fraction values from 4096. -/
namespace C06
theorem frac_chunk_01 : checkDepth fracOK 12 4096 = true := by decide +kernel
end C06
