import TexcraftModel.Lemmas.C06Mut
/-! Kernel-evaluated table: `mutOK` on the 8192 fraction values from 49152. -/
namespace C06
theorem mut_chunk_6 : checkDepth mutOK 13 49152 = true := by decide +kernel
end C06
