import TexcraftModel.Lemmas.C06Frac
/-! Kernel-evaluated table: `fracOK` on the 4096 fraction values from 53248. -/
namespace C06
theorem frac_chunk_13 : checkDepth fracOK 12 53248 = true := by decide +kernel
end C06
