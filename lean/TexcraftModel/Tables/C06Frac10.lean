import TexcraftModel.Lemmas.C06Frac
/-! Kernel-evaluated table: `fracOK` on the 4096 fraction values from 40960. -/
namespace C06
theorem frac_chunk_10 : checkDepth fracOK 12 40960 = true := by decide +kernel
end C06
