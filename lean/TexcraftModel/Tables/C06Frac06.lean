import TexcraftModel.Lemmas.C06Frac
/-! Kernel-evaluated table: `fracOK` on the 4096 fraction values from 24576. -/
namespace C06
theorem frac_chunk_06 : checkDepth fracOK 12 24576 = true := by decide +kernel
end C06
