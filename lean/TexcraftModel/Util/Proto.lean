/-
Line protocol shared by every driver: one request per line on stdin, one reply per line on
stdout. Requests are ASCII words separated by single spaces; integers are decimal; lists
are written as a length followed by the elements. Core Lean only (drivers must link).
-/
namespace Proto

def words (line : String) : List String :=
  (line.trimAscii.toString.splitOn " ").filter (· ≠ "")

def parseInt? (s : String) : Option Int := s.toInt?
def parseNat? (s : String) : Option Nat := s.toNat?

/-- Parse every word as an integer; `none` if any fails. -/
def ints? (ws : List String) : Option (List Int) := ws.mapM parseInt?
def nats? (ws : List String) : Option (List Nat) := ws.mapM parseNat?

def showInts (l : List Int) : String := " ".intercalate (l.map toString)
def showNats (l : List Nat) : String := " ".intercalate (l.map toString)

/-- A cursor over a list of integers, for decoding structured requests. -/
abbrev Cur := List Int

def takeN (n : Nat) (c : Cur) : Option (List Int × Cur) :=
  if n ≤ c.length then some (c.take n, c.drop n) else none

/-- Read a length-prefixed list. -/
def takeList (c : Cur) : Option (List Int × Cur) :=
  match c with
  | [] => none
  | n :: t => if n < 0 then none else takeN n.toNat t

partial def loop (h : IO.FS.Stream) (out : IO.FS.Stream) (handle : String → String) : IO Unit := do
  let line ← h.getLine
  if line.isEmpty then return ()
  out.putStrLn (handle line)
  out.flush
  loop h out handle

def main (handle : String → String) : IO Unit := do
  loop (← IO.getStdin) (← IO.getStdout) handle

end Proto
